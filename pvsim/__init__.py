"""pvsim -- deterministic simulation with environment-fault injection for pytenet (see /verif/DESIGN.md)."""
