"""Shared session machinery: violation records, judged/skip counters, probes, signatures."""
import hashlib
import warnings
from collections import Counter

from .seams import Env, Seams, load_pytenet, InjectedBackendFailure


class HarnessError(Exception):
    pass


class SessionBase:
    world = '?'

    def __init__(self, session: dict):
        self.session = session
        self.cfg = session['config']
        self.ops = session['ops']
        self.focus = session.get('prop')
        self.env = Env(session.get('seed', 0), self.cfg.get('enabled', []))
        self.violations = []
        self.judged = Counter()
        self.skips = Counter()
        self.probes = Counter()
        self.outcomes = []
        self.sig = []
        self.stop = False
        self.opi = -1
        self.opkind = ''
        self.stop_on = session.get('stop_on', 'focus')   # 'focus' | 'any' | 'none'

    # ---- verdict bookkeeping -----------------------------------------------------------------
    def viol(self, props, clause, detail, op_index=None, opkind=None):
        if isinstance(props, str):
            props = [props]
        rec = {'props': list(props), 'clause': clause, 'op_index': self.opi if op_index is None else op_index,
               'op': self.opkind if opkind is None else opkind, 'detail': str(detail)[:600]}
        self.violations.append(rec)
        self.env.log('VIOL', rec['props'], clause, rec['op_index'])
        if self.stop_on == 'any' or (self.stop_on == 'focus' and self.focus in props):
            self.stop = True
        return rec

    def check(self, cond, props, clause, detail=''):
        """Count a judged clause; record a violation when it fails.  `detail` may be a callable."""
        if isinstance(props, str):
            props = [props]
        for p in props:
            self.judged[(p, clause)] += 1
        if not cond:
            self.viol(props, clause, detail() if callable(detail) else detail)
        return bool(cond)

    def skip(self, reason):
        self.skips[reason] += 1

    def probe(self, name, n=1):
        self.probes[name] += n

    # ---- running ---------------------------------------------------------------------------
    def run(self):
        load_pytenet()
        with Seams(self.env) as seams:
            self.seams = seams
            self.install_monitors()
            for i, op in enumerate(self.ops):
                if self.stop:
                    break
                self.opi = i
                self.opkind = op['op']
                self.env.log('OP', i, op['op'])
                handler = getattr(self, 'op_' + op['op'], None)
                if handler is None:
                    raise HarnessError(f'unknown op {op["op"]}')
                with warnings.catch_warnings(record=True):
                    warnings.simplefilter('always')
                    outcome = handler(op)
                outcome = outcome or 'ok'
                self.outcomes.append((op['op'], outcome))
                self.env.log('OUT', outcome)
                self.sig.append((op['op'], outcome, self.abstract_state(), tuple(sorted(self.env.opfired))))
                self.env.opfired = set()
        return self.summary()

    def install_monitors(self):
        pass

    def abstract_state(self):
        return ()

    def summary(self):
        sigh = hashlib.sha256(repr(self.sig).encode()).hexdigest()[:16]
        return {
            'seed': self.session.get('seed'),
            'world': self.world,
            'violations': self.violations,
            'judged': {f'{p}:{c}': n for (p, c), n in self.judged.items()},
            'skips': dict(self.skips),
            'probes': dict(self.probes),
            'outcomes': [list(x) for x in self.outcomes],
            'fired': dict(self.env.fired),
            'seam_calls': dict(self.env.calls),
            'digest': self.env.digest(),
            'sig': sigh,
            'nops': len(self.outcomes),
            'faultfree': bool(self.cfg.get('faultfree')),
        }
