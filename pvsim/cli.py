import argparse
import os
import sys


def main():
    ap = argparse.ArgumentParser(prog='check')
    ap.add_argument('prop', nargs='?')
    ap.add_argument('--tier', default=os.environ.get('VERIF_TIER', 'quick'), choices=['quick', 'thorough'])
    ap.add_argument('--seed', type=int, default=int(os.environ.get('VERIF_SEED', '0') or 0))
    ap.add_argument('--replay')
    ap.add_argument('--digests')
    ap.add_argument('--sessions', type=int)
    ap.add_argument('--budget', type=float)
    ap.add_argument('--no-determinism', action='store_true')
    a = ap.parse_args()
    from . import engine
    if a.replay:
        sys.exit(engine.replay(a.replay))
    if a.digests:
        engine.print_digests(a.digests, a.tier, a.seed)
        sys.exit(0)
    if not a.prop or a.prop not in engine.WORLDS:
        print(f'usage: check <property id> [--tier quick|thorough]; claimed: {sorted(engine.WORLDS)}')
        sys.exit(2)
    try:
        rc = engine.run_check(a.prop, a.tier, a.seed, budget_s=a.budget, sessions=a.sessions, do_determinism=not a.no_determinism)
    except Exception:
        import traceback
        traceback.print_exc()
        print('HARNESS-ERROR: exception in the runner')
        rc = 2
    sys.exit(rc)


if __name__ == '__main__':
    main()
