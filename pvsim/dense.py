"""
Reference-model side of the TN world: my own contractions and structural predicates.
Nothing here calls pytenet (as_vector / as_matrix / is_qsparse are themselves under test).
"""
import numpy as np


def _rebalance(cur, e):
    """Exact power-of-two rescaling of a partial product whose magnitude drifts towards under- / overflow."""
    m = float(np.abs(cur).max()) if cur.size else 0.0
    if m == 0 or not np.isfinite(m) or 2.0 ** -200 <= m <= 2.0 ** 200:
        return cur, e
    k = int(np.frexp(m)[1])
    return cur * 2.0 ** -k, e + k


def _apply_exponent(cur, e):
    while e != 0:
        st = max(-900, min(900, e))
        cur = cur * 2.0 ** st
        e -= st
    return cur


def mps_to_vector(Alist):
    cur = np.asarray(Alist[0])
    assert cur.ndim == 3 and cur.shape[1] == 1
    cur = cur[:, 0, :].astype(complex)
    e = 0
    for A in Alist[1:]:
        A = np.asarray(A)
        cur, e = _rebalance(cur, e)
        cur = np.einsum('nb,pbc->npc', cur, A).reshape(cur.shape[0] * A.shape[0], A.shape[2])
    assert cur.shape[1] == 1
    return _apply_exponent(cur[:, 0].copy(), e)


def mpo_to_matrix(Alist):
    cur = np.asarray(Alist[0])
    assert cur.ndim == 4 and cur.shape[2] == 1
    cur = cur[:, :, 0, :].astype(complex)
    e = 0
    for A in Alist[1:]:
        A = np.asarray(A)
        n = cur.shape[0]
        cur, e = _rebalance(cur, e)
        cur = np.einsum('xyb,pqbc->xpyqc', cur, A).reshape(n * A.shape[0], cur.shape[1] * A.shape[1], A.shape[3])
    assert cur.shape[2] == 1
    return _apply_exponent(cur[:, :, 0].copy(), e)


def frob_scale(Alist):
    """prod_i ||A_i||_F : the natural absolute rounding scale of a contraction."""
    s = 1.0
    for A in Alist:
        s *= float(np.linalg.norm(np.asarray(A, dtype=complex)))
    return s


def abs_scale(Alist):
    """Like frob_scale, but never zero (an all-zero tensor contributes factor 1) and safe for extreme magnitudes."""
    s = 1.0
    for A in Alist:
        n = safe_norm(np.asarray(A, dtype=complex))
        s *= n if (n > 0 and np.isfinite(n)) else 1.0
    return s if np.isfinite(s) and s > 0 else 1.0


def outer_sum(qs):
    T = np.asarray(qs[0], dtype=np.int64)
    for q in qs[1:]:
        T = np.add.outer(T, np.asarray(q, dtype=np.int64))
    return T


def label_modulus(*qs):
    """Charges held in a narrow / unsigned integer dtype are consistent modulo 2^bits (numpy wraps): 0 = no modulus."""
    bits = 0
    for q in qs:
        if isinstance(q, np.ndarray) and np.issubdtype(q.dtype, np.integer) and q.dtype.itemsize < 8:
            bits = max(bits, 8 * q.dtype.itemsize)
    return 0 if bits == 0 else 2 ** bits


def offsupport_max(A, qs, modulus=0):
    """Largest |entry| of A outside the charge-conserving support (sum of charges == 0, modulo `modulus` if given)."""
    A = np.asarray(A)
    mask = outer_sum(qs)
    if mask.shape != A.shape:
        return None
    if modulus:
        mask = mask % modulus
    off = np.abs(A[mask != 0])
    return float(off.max()) if off.size else 0.0


def is_int_1d_array(q):
    return isinstance(q, np.ndarray) and q.ndim == 1 and np.issubdtype(q.dtype, np.integer)


def isometry_defect(M):
    """|| M^dagger M - 1 ||_max for a matrix M."""
    M = np.asarray(M, dtype=complex)
    G = M.conj().T @ M
    return float(np.abs(G - np.identity(G.shape[0])).max()) if G.size else 0.0


def schmidt_values(v, dl):
    """Singular values of vector v reshaped to (dl, len(v)/dl)."""
    M = np.asarray(v).reshape(dl, -1)
    return np.linalg.svd(M, compute_uv=False)


def replace_site_vector(Alist, i, X):
    B = list(Alist)
    B[i] = X
    return mps_to_vector(B)


def safe_norm(x):
    """Frobenius norm that neither underflows nor overflows for extreme but representable magnitudes."""
    x = np.asarray(x)
    if x.size == 0:
        return 0.0
    m = float(np.abs(x).max())
    if m == 0 or not np.isfinite(m):
        return m
    return m * float(np.linalg.norm(x / m))


def _op_schmidt(M, dl, dr):
    """Operator-Schmidt matrix of M (dl*dr x dl*dr) across the cut dl | dr: rows (l, l'), columns (r, r')."""
    return np.asarray(M).reshape(dl, dr, dl, dr).transpose(0, 2, 1, 3).reshape(dl * dl, dr * dr)


def _rank_one(R, rel=1e-10):
    s = np.linalg.svd(R, compute_uv=False)
    return len(s) < 2 or s[0] == 0 or s[1] <= rel * s[0]


def is_product_plus_identity(M, d, L):
    """True iff M = h_1 x ... x h_L + alpha 1 for some number alpha (a product operator up to an identity shift)."""
    M = np.asarray(M, dtype=complex)
    n = M.shape[0]
    if L <= 1 or not np.any(M):
        return True

    def product(P):
        return all(_rank_one(_op_schmidt(P, d ** c, d ** (L - c))) for c in range(1, L))
    if product(M):
        return True
    R = _op_schmidt(M, d, n // d)
    e = np.identity(d).reshape(-1).astype(complex)
    f = np.identity(n // d).reshape(-1).astype(complex)
    g = np.random.Generator(np.random.PCG64(12345))
    u = g.normal(size=d * d) + 1j * g.normal(size=d * d)
    u = u - e * (e.conj() @ u) / (e.conj() @ e)
    w = g.normal(size=len(f)) + 1j * g.normal(size=len(f))
    w = w - f * (f.conj() @ w) / (f.conj() @ f)
    a = R @ w.conj()              # proportional to vec(h_1) when M = h_1 x Q + alpha 1 (w is orthogonal to vec(1))
    b = R.T @ u.conj()            # proportional to vec(Q)
    nR = float(np.linalg.norm(R))
    if float(np.linalg.norm(a)) <= 1e-12 * nR * float(np.linalg.norm(w)) or float(np.linalg.norm(b)) <= 1e-12 * nR * float(np.linalg.norm(u)):
        # h_1 (or the rest) is itself a multiple of the identity: M = 1 x M' exactly when the cut has rank one
        if _rank_one(R) and d > 1:
            Mp = np.trace(M.reshape(d, n // d, d, n // d), axis1=0, axis2=2) / d
            if np.linalg.norm(np.kron(np.identity(d), Mp) - M) <= 1e-10 * np.linalg.norm(M):
                return is_product_plus_identity(Mp, d, L - 1)
        return False
    X = np.stack([np.outer(a, b).reshape(-1), np.outer(e, f).reshape(-1)], axis=1)
    sol = np.linalg.lstsq(X, R.reshape(-1), rcond=None)[0]
    P = M - sol[1] * np.identity(n)
    return product(P)
