"""
Runner: seeded search over sessions on all cores, shrinking, replay files, evidence.
Exit codes: 0 = held on everything explored; 1 = VIOLATION (not covered by an open known finding);
2 = harness error / determinism failure / inconclusive hang.  (DESIGN.md 8)
"""
import copy
import faulthandler
import json
import multiprocessing
import os
import subprocess
import sys
import time
import traceback
from collections import Counter
from concurrent.futures import ProcessPoolExecutor, wait, FIRST_COMPLETED

from .prng import mix
from . import known

VERIF = os.path.dirname(os.path.dirname(os.path.abspath(__file__)))


def _scratch():
    """Runs against another source tree (PYTENET_SRC: sensitivity experiments) must not touch the committed evidence / replays."""
    src = os.environ.get('PYTENET_SRC')
    return bool(src) and os.path.realpath(src) != os.path.realpath('/repo')


def out_dir(kind):
    d = os.path.join(VERIF, 'reports', 'scratch_' + kind) if _scratch() else os.path.join(VERIF, kind)
    os.makedirs(d, exist_ok=True)
    return d

# property -> list of (world, weight)
WORLDS = {
    'C01': [('tn', 1)], 'C02': [('tn', 1)], 'C03': [('tn', 1)], 'C04': [('tn', 1)],
    'C05': [('gr', 1)], 'C08': [('tn', 1)], 'C09': [('tn', 1)], 'C10': [('tn', 1)],
    'C11': [('tn', 1)], 'C12': [('tn', 1)], 'C13': [('tn', 1)],
    'C14': [('kr', 3), ('tn', 1)], 'C15': [('kr', 3), ('tn', 1)],
    'C16': [('gr', 1)], 'C17': [('gr', 1)],
    'C19': [('tn', 3), ('gr', 3), ('kr', 1)], 'C20': [('tn', 1), ('gr', 1)],
}

# sessions per quick run (tuned to roughly a minute on 16 cores)
QUICK_SESSIONS = {
    'C01': 36000, 'C02': 16000, 'C03': 40000, 'C04': 18000, 'C05': 36000, 'C08': 4800, 'C09': 2400, 'C10': 4400,
    'C11': 24000, 'C12': 22000, 'C13': 20000, 'C14': 10000, 'C15': 10000, 'C16': 36000, 'C17': 28000, 'C19': 30000, 'C20': 7000,
}
CHUNK = {'tn': 8, 'gr': 50, 'kr': 40}


def world_of(prop, k):
    tab = WORLDS[prop]
    tot = sum(w for _, w in tab)
    x = k % tot
    acc = 0
    for wname, w in tab:
        acc += w
        if x < acc:
            return wname
    return tab[-1][0]


def session_seed(batch_seed, prop, tier, k):
    return mix(batch_seed, prop, tier, k) >> 2


def make(prop, tier, batch_seed, k):
    from .run1 import make_session
    s = make_session(world_of(prop, k), prop, tier, session_seed(batch_seed, prop, tier, k))
    s['k'] = k
    s['batch_seed'] = batch_seed
    return s


def vclass(v):
    return (v['clause'], v['op'])


def focus_violations(res, prop):
    return [v for v in res['violations'] if prop in v['props']]


# ---------------------------------------------------------------------------------------------------
def _worker(task):
    prop, tier, batch_seed, k0, k1 = task
    from .run1 import execute
    faulthandler.dump_traceback_later(600, exit=True)
    agg = {'sessions': 0, 'ops': 0, 'judged': Counter(), 'skips': Counter(), 'probes': Counter(), 'fired': Counter(),
           'seam_calls': Counter(), 'outcomes': Counter(), 'sigs': set(), 'nontrivial_sigs': set(), 'digests': {}, 'viol': [], 'collateral': [],
           'faultfree': 0, 'harness_errors': [], 'hangs': [], 'by_world': Counter(), 'trigrams': set(), 'samples': [], 't': 0.0}
    t0 = time.time()
    for k in range(k0, k1):
        s = make(prop, tier, batch_seed, k)
        try:
            r = execute(s)
        except Exception as e:
            if type(e).__name__ == 'SessionHang':
                agg['hangs'].append({'k': k, 'seed': s['seed'], 'what': str(e)})
            else:
                agg['harness_errors'].append({'k': k, 'seed': s['seed'], 'trace': traceback.format_exc()[-1500:]})
            continue
        agg['sessions'] += 1
        agg['by_world'][s['world']] += 1
        agg['ops'] += r['nops']
        agg['judged'].update(r['judged'])
        agg['skips'].update(r['skips'])
        agg['probes'].update(r['probes'])
        agg['fired'].update(r['fired'])
        agg['seam_calls'].update(r['seam_calls'])
        for kind, out in r['outcomes']:
            agg['outcomes'][f'{kind}:{out}'] += 1
        kinds = [o[0] for o in r['outcomes']]
        for i in range(len(kinds) - 2):
            agg['trigrams'].add(tuple(kinds[i:i + 3]))
        agg['sigs'].add(r['sig'])
        if any(key.startswith(prop + ':') and n > 0 for key, n in r['judged'].items()):
            agg['nontrivial_sigs'].add(r['sig'])
        if k < 16:
            agg['digests'][k] = r['digest']
        if r['faultfree']:
            agg['faultfree'] += 1
        fv = focus_violations(r, prop)
        if fv:
            agg['viol'].append({'k': k, 'seed': s['seed'], 'world': s['world'], 'violations': fv[:4]})
        other = [v for v in r['violations'] if prop not in v['props']]
        if other:
            agg['collateral'].append({'k': k, 'props': sorted(set(p for v in other for p in v['props'])), 'clause': other[0]['clause'], 'op': other[0]['op']})
        if len(agg['samples']) < 1 and k % 97 == 0:
            agg['samples'].append({'k': k, 'session_seed': s['seed'], 'world': s['world'],
                                   'config': {kk: vv for kk, vv in s['config'].items() if kk in ('family', 'L', 'd', 'qd', 'Dmax', 'enabled', 'faultfree', 'kind', 'n')},
                                   'ops': [compact_op(o) for o in s['ops']][:14], 'outcomes': r['outcomes'][:14]})
    faulthandler.cancel_dump_traceback_later()
    agg['t'] = time.time() - t0
    for key in ('judged', 'skips', 'probes', 'fired', 'seam_calls', 'outcomes', 'by_world'):
        agg[key] = dict(agg[key])
    agg['sigs'] = list(agg['sigs'])
    agg['nontrivial_sigs'] = list(agg['nontrivial_sigs'])
    agg['trigrams'] = [list(t) for t in agg['trigrams']]
    return agg


def compact_op(o):
    out = {}
    for k, v in o.items():
        if k == 'env':
            e = {kk: vv for kk, vv in v.items() if vv not in (None, [], False) and kk != 'gauge'}
            if e:
                out['env'] = e
        elif isinstance(v, int) and abs(v) > 10 ** 6:
            out[k] = f'sel:{v % 1000}'
        elif isinstance(v, list) and len(json.dumps(v)) > 160:
            out[k] = json.dumps(v)[:157] + '...'
        else:
            out[k] = v
    return out


# ---------------------------------------------------------------------------------------------------
def execute_quiet(session, stop_on='focus'):
    from .run1 import execute
    s = copy.deepcopy(session)
    s['stop_on'] = stop_on
    return execute(s)


def fails_same(session, prop, cls):
    try:
        r = execute_quiet(session)
    except Exception:
        return False
    return any(vclass(v) == cls for v in focus_violations(r, prop))


def shrink(session, prop, cls, budget_s=45.0):
    """Truncate, ddmin over ops, then per-op simplification, preserving the violation class."""
    t0 = time.time()
    best = copy.deepcopy(session)
    r = execute_quiet(best)
    fv = [v for v in focus_violations(r, prop) if vclass(v) == cls]
    if not fv:
        return best
    cut = fv[0]['op_index'] + 1
    cand = copy.deepcopy(best)
    cand['ops'] = cand['ops'][:cut]
    if fails_same(cand, prop, cls):
        best = cand
    # ddmin
    n = 2
    while len(best['ops']) >= 2 and time.time() - t0 < budget_s:
        ops = best['ops']
        size = max(1, len(ops) // n)
        reduced = False
        for start in range(0, len(ops), size):
            cand = copy.deepcopy(best)
            cand['ops'] = ops[:start] + ops[start + size:]
            if cand['ops'] and fails_same(cand, prop, cls):
                best = cand
                n = max(n - 1, 2)
                reduced = True
                break
            if time.time() - t0 > budget_s:
                break
        if not reduced:
            if size == 1:
                break
            n = min(len(ops), n * 2)
    # per-op simplification: drop environment faults, simplify parameters
    for i in range(len(best['ops'])):
        if time.time() - t0 > budget_s:
            break
        op = best['ops'][i]
        env = op.get('env') or {}
        trials = []
        if env.get('kinds'):
            for kd in list(env['kinds']):
                trials.append(('env.kinds', [x for x in env['kinds'] if x != kd]))
            trials.append(('env.kinds', []))
        if env.get('raise_at') is not None:
            trials.append(('env.raise_at', None))
        if env.get('layout'):
            trials.append(('env.layout', None))
        if env.get('wprot'):
            trials.append(('env.wprot', False))
        if env.get('globals'):
            trials.append(('env.globals', None))
        for key, val in (('tol', 0.0), ('tol_split', 0.0), ('n', 1), ('numsweeps', 1), ('entries', 'complex'), ('exact_tie', False)):
            if key in op and op[key] != val:
                trials.append((key, val))
        for key, val in trials:
            cand = copy.deepcopy(best)
            tgt = cand['ops'][i]
            if key.startswith('env.'):
                tgt['env'][key[4:]] = val
            else:
                tgt[key] = val
            if fails_same(cand, prop, cls):
                best = cand
    return best


def write_replay(prop, tier, batch_seed, session, viol, shrunk, known_id=None):
    path = os.path.join(out_dir('replays'), f'{prop}-{session["seed"]}.json')
    doc = {'property': prop, 'tier': tier, 'batch_seed': batch_seed, 'session_seed': session['seed'], 'k': session.get('k'),
           'expected_class': {'clause': viol['clause'], 'op': viol['op']}, 'violation': viol,
           'known_finding': known_id,
           'ops_before_shrinking': len(session['ops']), 'ops_after_shrinking': len(shrunk['ops']),
           'session': {kk: shrunk[kk] for kk in ('world', 'prop', 'tier', 'seed', 'config', 'ops')}}
    with open(path, 'w') as f:
        json.dump(doc, f, indent=1)
    return path


def replay(path):
    with open(path) as f:
        doc = json.load(f)
    prop = doc['property']
    cls = (doc['expected_class']['clause'], doc['expected_class']['op'])
    sess = doc['session']
    r = execute_quiet(sess)
    fv = [v for v in focus_violations(r, prop) if vclass(v) == cls]
    print(f'replay {path}: session_seed={sess["seed"]} ops={len(sess["ops"])} digest={r["digest"][:16]}')
    if fv:
        kid = known.match(fv[0], sess)
        print(f'  reproduced: {fv[0]["clause"]} at op {fv[0]["op_index"]} ({fv[0]["op"]}): {fv[0]["detail"]}')
        if kid:
            print(f'KNOWN-FINDING: property={prop} {known.describe(kid)}')
            return 0
        print(f'VIOLATION property={prop} replay={path}')
        return 1
    print('  not reproduced (violation class did not recur)')
    return 0


# ---------------------------------------------------------------------------------------------------
def determinism_slice(prop, tier, batch_seed, digests):
    """Re-run sessions 0..15 in a fresh interpreter under another PYTHONHASHSEED and compare digests."""
    env = dict(os.environ)
    env['PYTHONHASHSEED'] = '12345'
    cmd = [sys.executable, '-m', 'pvsim.cli', '--digests', prop, '--tier', tier, '--seed', str(batch_seed)]
    try:
        out = subprocess.run(cmd, cwd=VERIF, env=env, capture_output=True, text=True, timeout=900)
    except subprocess.TimeoutExpired:
        return {'ok': False, 'reason': 'timeout'}
    other = {}
    for line in out.stdout.splitlines():
        if line.startswith('DIGEST '):
            _, k, d = line.split()
            other[int(k)] = d
    mism = [k for k in digests if other.get(k) != digests[k]]
    return {'ok': (not mism) and len(other) >= len(digests) and len(digests) > 0, 'compared': len(digests), 'mismatch': mism,
            'fresh_interpreter_pythonhashseed': 12345, 'stderr_tail': out.stderr[-300:] if mism or not other else ''}


def print_digests(prop, tier, batch_seed, n=16):
    from .run1 import execute
    for k in range(n):
        s = make(prop, tier, batch_seed, k)
        try:
            r = execute(s)
            print('DIGEST', k, r['digest'])
        except Exception as e:
            print('DIGEST', k, 'ERR-' + type(e).__name__)


# ---------------------------------------------------------------------------------------------------
def run_check(prop, tier='quick', batch_seed=0, budget_s=None, sessions=None, workers=None, do_determinism=True):
    t0 = time.time()
    workers = workers or int(os.environ.get('VERIF_WORKERS', '16'))
    if tier == 'quick':
        total = sessions or int(QUICK_SESSIONS[prop] * float(os.environ.get('VERIF_QUICK_SCALE', '1')))
        budget = budget_s or 1e9
    else:
        total = sessions or 10 ** 9
        budget = budget_s or float(os.environ.get('VERIF_BUDGET_S', '600'))
    print(f'pvsim check property={prop} tier={tier} VERIF_SEED={batch_seed} workers={workers} '
          f'sessions={"budget %.0fs" % budget if total >= 10**9 else total}', flush=True)
    tab = WORLDS[prop]
    chunk = min(CHUNK[w] for w, _ in tab)
    if tier == 'thorough':
        chunk = max(2, chunk // 2)
    agg = {'sessions': 0, 'ops': 0, 'judged': Counter(), 'skips': Counter(), 'probes': Counter(), 'fired': Counter(),
           'seam_calls': Counter(), 'outcomes': Counter(), 'sigs': set(), 'nontrivial_sigs': set(), 'digests': {}, 'viol': [], 'collateral': [],
           'faultfree': 0, 'harness_errors': [], 'hangs': [], 'by_world': Counter(), 'trigrams': set(), 'samples': [], 'cpu_s': 0.0}
    ctx = multiprocessing.get_context('fork')
    nxt = 0
    inconclusive = None
    with ProcessPoolExecutor(max_workers=workers, mp_context=ctx) as ex:
        pending = set()

        def submit():
            nonlocal nxt
            while len(pending) < workers * 2 and nxt < total and (time.time() - t0) < budget:
                k1 = min(total, nxt + chunk)
                pending.add(ex.submit(_worker, (prop, tier, batch_seed, nxt, k1)))
                nxt = k1
        submit()
        last_progress = time.time()
        while pending:
            done, pending = wait(pending, timeout=60, return_when=FIRST_COMPLETED)
            if not done:
                if time.time() - last_progress > 1800:
                    inconclusive = 'no worker progress for 1800 s'
                    for f in pending:
                        f.cancel()
                    break
                continue
            last_progress = time.time()
            for f in done:
                try:
                    a = f.result()
                except Exception as e:
                    inconclusive = f'worker died: {type(e).__name__}: {e}'
                    continue
                agg['sessions'] += a['sessions']
                agg['ops'] += a['ops']
                agg['cpu_s'] += a['t']
                for key in ('judged', 'skips', 'probes', 'fired', 'seam_calls', 'outcomes', 'by_world'):
                    agg[key].update(a[key])
                agg['sigs'].update(a['sigs'])
                agg['nontrivial_sigs'].update(a['nontrivial_sigs'])
                agg['trigrams'].update(tuple(t) for t in a['trigrams'])
                agg['digests'].update({int(k): v for k, v in a['digests'].items()})
                agg['viol'] += a['viol']
                agg['collateral'] += a['collateral']
                agg['faultfree'] += a['faultfree']
                agg['harness_errors'] += a['harness_errors']
                agg['hangs'] += a.get('hangs', [])
                if len(agg['samples']) < 3:
                    agg['samples'] += a['samples']
            if len(agg['viol']) >= 40:
                # enough material; stop exploring (the check has failed anyway)
                total = nxt
            if inconclusive and 'died' in inconclusive:
                break
            submit()
    wall_explore = time.time() - t0
    if agg['hangs'] and not inconclusive:
        inconclusive = f'{len(agg["hangs"])} session(s) did not terminate (first: session_seed={agg["hangs"][0]["seed"]}, {agg["hangs"][0]["what"]})'

    # ---- violations: classify, shrink, report ---------------------------------------------------
    reported = []
    known_hits = {}
    seen_classes = set()
    agg['viol'].sort(key=lambda x: x['k'])
    for item in agg['viol']:
        sess = make(prop, tier, batch_seed, item['k'])
        v = item['violations'][0]
        cls = vclass(v)
        kid = known.match(v, sess)
        if kid:
            known_hits.setdefault(kid, {'count': 0, 'first_seed': sess['seed'], 'detail': v['detail']})
            known_hits[kid]['count'] += 1
            continue
        if cls in seen_classes or len(reported) >= 3:
            continue
        seen_classes.add(cls)
        try:
            small = shrink(sess, prop, cls)
        except Exception:
            small = sess
        try:
            rs = execute_quiet(small)
            vs = [x for x in focus_violations(rs, prop) if vclass(x) == cls]
            vshrunk = vs[0] if vs else v
        except Exception:
            vshrunk = v
        path = write_replay(prop, tier, batch_seed, sess, vshrunk, small)
        reported.append({'k': item['k'], 'seed': sess['seed'], 'clause': v['clause'], 'op': v['op'], 'detail': v['detail'], 'replay': path,
                         'ops': len(small['ops'])})
    det = None
    if do_determinism and not agg['harness_errors'] and not inconclusive:
        det = determinism_slice(prop, tier, batch_seed, agg['digests'])
    wall = time.time() - t0
    nviol_total = len(agg['viol'])
    nunknown = nviol_total - sum(h['count'] for h in known_hits.values())
    write_evidence(prop, tier, batch_seed, agg, reported, known_hits, det, wall, wall_explore, inconclusive, nunknown)
    for kid, h in known_hits.items():
        print(f'KNOWN-FINDING: property={prop} {known.describe(kid)} (hit in {h["count"]} sessions, first session_seed={h["first_seed"]})')
    for rpt in reported:
        print(f'  violation: clause={rpt["clause"]} op={rpt["op"]} session_seed={rpt["seed"]} minimised to {rpt["ops"]} ops: {rpt["detail"]}')
        print(f'VIOLATION property={prop} replay={rpt["replay"]}')
    print(f'sessions={agg["sessions"]} ops={agg["ops"]} distinct_signatures={len(agg["sigs"])} nontrivial={len(agg["nontrivial_sigs"])} '
          f'violating_sessions={nviol_total} wall={wall:.1f}s', flush=True)
    if agg['harness_errors']:
        print(f'HARNESS-ERROR: {len(agg["harness_errors"])} sessions raised inside the harness; first:\n{agg["harness_errors"][0]["trace"]}')
        return 2
    if inconclusive:
        print(f'INCONCLUSIVE: {inconclusive}')
        if reported:
            # a worker hung or died (e.g. a session that does not terminate), but other sessions did produce replayable
            # violations: those stand on their own
            return 1
        return 2
    if det is not None and not det['ok']:
        print(f'HARNESS-ERROR: determinism slice failed: {det}')
        return 2
    if reported:
        return 1
    if agg['sessions'] == 0:
        print('HARNESS-ERROR: no session executed')
        return 2
    return 0


def write_evidence(prop, tier, batch_seed, agg, reported, known_hits, det, wall, wall_explore, inconclusive, nunknown):
    judged_prop = {k: v for k, v in agg['judged'].items() if k.startswith(prop + ':')}
    hours = max(wall_explore, 1e-9) / 3600.0
    cov = {
        'evaluations': int(agg['sessions']),
        'distinct_nontrivial': int(len(agg['nontrivial_sigs'])),
        'rule': ('One evaluation = one simulated session (seeded op history x environment choices x configuration) executed against the '
                 'real pytenet code in lock-step with the reference model. A session is non-trivial if at least one oracle clause of '
                 f'{prop} was actually judged in it (not skipped by precondition, guard band or conditioning); distinct = distinct sha256 '
                 'of the sequence of (op kind, outcome class, abstract pool state (kinds, bond profiles, dtypes), fault kinds fired).'),
        'samples': agg['samples'][:3] or [{'note': 'no sample captured'}],
        'ops_executed': int(agg['ops']),
        'sessions_by_world': dict(agg['by_world']),
        'sessions_per_hour': int(agg['sessions'] / hours),
        'ops_per_hour': int(agg['ops'] / hours),
        'cpu_seconds_in_sessions': round(agg['cpu_s'], 1),
        'judged_clauses_of_this_property': judged_prop,
        'judged_clauses_all_properties': dict(agg['judged']),
        'op_outcomes': dict(agg['outcomes']),
        'skipped_not_judged': dict(agg['skips']),
        'fault_kinds_fired': dict(agg['fired']),
        'seam_calls': dict(agg['seam_calls']),
        'probes': dict(agg['probes']),
        'distinct_session_signatures': int(len(agg['sigs'])),
        'distinct_op_kind_trigrams': int(len(agg['trigrams'])),
        'fault_free_sessions': int(agg['faultfree']),
        'fault_injecting_sessions': int(agg['sessions'] - agg['faultfree']),
        'determinism_slice': det,
        'simulated_time': 'not applicable: pytenet has no clock, timer or deadline; the unit of progress is the operation',
        'components': {'real': ['all of pytenet (from /repo working tree)', 'numpy', 'scipy', 'LAPACK/BLAS (single-threaded)'],
                       'simulated_environment': ['LAPACK gauge choices (QR sign, SVD phase/rotation, eigenvector sign)', 'tie order of unstable sort',
                                                 'last-bit rounding of LAPACK results', 'OS entropy (default_rng)', 'caller memory layout / write protection',
                                                 'backend failure (LinAlgError / MemoryError)', 'user callbacks (Krylov Afunc, automaton callables)',
                                                 'process-global state set by the caller (numpy error state, print options, warnings filter, global RNG state)',
                                                 'interpreter mode (a slice of the sessions runs under python -O)',
                                                 'representation of arguments (lists / tuples / integer dtypes of charge labels, numpy scalars and 0-d arrays, single / extended precision tensors, mapping and array subclasses)'],
                       'stubs': []},
        'collateral_other_properties': agg['collateral'][:20],
        'known_findings_hit': known_hits,
        'reported_violations': reported,
        'inconclusive': inconclusive,
        'harness_errors': len(agg['harness_errors']),
        'pytenet_src': os.environ.get('PYTENET_SRC', '/repo'),
    }
    doc = {'property_id': prop, 'tier': tier, 'seed': int(batch_seed), 'level': 'exploration', 'coverage': cov,
           'assumptions': ['oracle side trusts numpy/scipy/LAPACK (unpatched) and the harness\' own contraction / polynomial evaluators',
                           'injected environment behaviours are legal by the arguments of DESIGN.md 4.4',
                           'a clean batch is evidence, not proof: sessions are sampled, not enumerated'],
           'wall_s': round(wall, 2), 'violations': int(nunknown)}
    with open(os.path.join(out_dir('evidence'), f'{prop}.json'), 'w') as f:
        json.dump(doc, f, indent=1, default=str)
