"""Generator of GR-world (operator graph) sessions: pure function seed -> (config, op list)."""
from .prng import Rng, mix, gen_globals

COEFFS = [2.0, -2.0, 1.5, -1.5, 1.0, 1.0, -1.0, 0.5, -0.5, 0.25, -0.25]

BODY = {
    'C05': dict(from_opchains=8, to_mpo=5, simplify=1, rename_node=0.5, rename_edge=0.5, flip=0.3, add=1, random_layered=1.5, merge_edges=0.7,
                as_matrix=0.7, chain_as_matrix=0.7, from_optrees=0.4, from_automaton=0.4, deepcopy=0.3),
    'C16': dict(one_node_graph=0.6, random_layered=3, from_opchains=1.5, from_optrees=1, from_automaton=1, simplify=4, merge_edges=4, rename_node=3, rename_edge=3,
                add=4, flip=2.5, deepcopy=1, to_mpo=0.8, as_matrix=0.8),
    'C17': dict(from_optrees=6, from_automaton=6, as_matrix=4, tree_as_matrix=2.5, chain_as_matrix=2, from_opchains=1, simplify=1, add=1, flip=0.7,
                rename_node=0.4, random_layered=1, to_mpo=1),
    'C19': dict(one_node_graph=0.2, from_opchains=3, from_optrees=2, from_automaton=2, random_layered=2, add=4, to_mpo=3, as_matrix=2, deepcopy=1.5, simplify=1.5,
                flip=1, rename_node=1, rename_edge=1, merge_edges=1, chain_as_matrix=0.7, tree_as_matrix=0.7),
    'C20': dict(from_opchains=7, to_mpo=3, simplify=4, random_layered=2.5, add=2, merge_edges=1, from_optrees=1, from_automaton=0.7, flip=0.5),
}


def gen_alphabet(rng: Rng, charged: bool):
    K = rng.randrange(2, 6)
    ch = {0: 0}
    for o in range(1, K + 1):
        ch[o] = rng.pick([-1, 0, 0, 1]) if charged else 0
    if charged:
        # make sure every charge value has a carrier
        ch[1] = 1
        ch[2] = -1
        if K >= 3:
            ch[3] = 0
    return K, ch


def gen_chain(rng: Rng, cfg):
    L, K, ch = cfg['L'], cfg['K'], cfg['charges']
    for _ in range(20):
        n = rng.randrange(1, L + 1)
        istart = rng.randrange(0, L - n + 1)
        oids = [rng.randrange(0, K + 1) if rng.chance(0.85) else 0 for _ in range(n)]
        q = [0]
        for o in oids:
            q.append(q[-1] + ch[o])
        if q[-1] != 0:
            # try to balance with the last operator
            need = -q[-2]
            cands = [o for o in range(0, K + 1) if ch[o] == need]
            if not cands:
                continue
            oids[-1] = rng.pick(cands)
            q[-1] = 0
        c = rng.pick(COEFFS)
        if rng.chance(0.08):
            c = c * rng.pick([2.0 ** -30, 2.0 ** -34 * 3, 1.0 + 2.0 ** -24])
        return {'oids': oids, 'qnums': q, 'coeff': c, 'istart': istart}
    return {'oids': [0], 'qnums': [0, 0], 'coeff': rng.pick(COEFFS), 'istart': 0}


def gen_chain_list(rng: Rng, cfg):
    n = rng.pick([1, 1, 2, 3, 4, 5, 6, 8])
    chains = [gen_chain(rng, cfg) for _ in range(n)]
    # duplicates / cancellations / zero coefficients on purpose
    if rng.chance(0.4) and chains:
        c = dict(rng.pick(chains))
        c['coeff'] = rng.pick([c['coeff'], -c['coeff'], 0.5 * c['coeff'], 0.25])
        chains.insert(rng.randrange(len(chains) + 1), c)
    if rng.chance(0.2):
        c = dict(rng.pick(chains))
        c['coeff'] = 0.0
        chains.insert(rng.randrange(len(chains) + 1), c)
    if rng.chance(0.25):
        # fresh chains with coefficient exactly zero: they must not cost any bond dimension
        for _ in range(rng.randrange(1, 5)):
            c = gen_chain(rng, cfg)
            c['coeff'] = rng.pick([0.0, 0.0, -0.0, 0])
            chains.insert(rng.randrange(len(chains) + 1), c)
    if rng.chance(0.15):
        # terms sharing a long common prefix / suffix
        base = gen_chain(rng, cfg)
        for _ in range(rng.randrange(1, 3)):
            c = {'oids': list(base['oids']), 'qnums': list(base['qnums']), 'coeff': rng.pick(COEFFS), 'istart': base['istart']}
            chains.append(c)
    return chains


def gen_tree_node(rng: Rng, cfg, depth_left, q, must_branch=False):
    """Node at charge q with `depth_left` sites remaining until the terminal."""
    K, ch = cfg['K'], cfg['charges']
    if depth_left == 0 or (not must_branch and rng.chance(0.25) and q == 0):
        return {'q': q, 'children': []} if q == 0 else None
    nchild = rng.pick([1, 1, 2, 2, 3])
    children = []
    for _ in range(nchild):
        for _try in range(6):
            o = rng.randrange(0, K + 1)
            c = rng.pick(COEFFS)
            if children and rng.chance(0.3):
                # sibling with the same operator and a nearly equal (or equally tiny) coefficient but its own subtree
                o = children[-1]['oid']
                c = children[-1]['coeff'] * rng.pick([1.0 + 2.0 ** -24, 1.0 - 2.0 ** -25, 1.0, 3.0])
                if rng.chance(0.3):
                    children[-1]['coeff'] = 2.0 ** -30
                    c = 3 * 2.0 ** -30
            q2 = q + ch[o]
            sub = gen_tree_node(rng, cfg, depth_left - 1, q2)
            if sub is not None:
                children.append({'oid': o, 'coeff': c, 'node': sub})
                break
    if not children:
        return None
    return {'q': q, 'children': children}


def gen_tree_list(rng: Rng, cfg):
    L = cfg['L']
    trees = []
    for _ in range(rng.pick([1, 1, 2, 3])):
        for _try in range(10):
            istart = rng.randrange(0, L)
            root = gen_tree_node(rng, cfg, L - istart, 0, must_branch=True)
            if root is not None and root['children']:
                trees.append({'istart': istart, 'root': root})
                break
    return trees


def gen_automaton(rng: Rng, cfg):
    L, K, ch = cfg['L'], cfg['K'], cfg['charges']
    nn = rng.randrange(2, 6)
    nids = rng.sample(range(-3, 12), nn)
    charged = any(ch[o] for o in ch)
    qn = {nid: (rng.randrange(0, 2) if charged else 0) for nid in nids}
    t0, t1 = nids[0], nids[1] if rng.chance(0.85) else nids[0]
    qn[t0] = 0
    qn[t1] = 0
    edges = []
    eid = rng.randrange(0, 5)
    ne = rng.randrange(nn, 3 * nn + 2)

    def mk_opics(a, b):
        need = qn[b] - qn[a]
        cands = [o for o in range(0, K + 1) if ch[o] == need]
        if not cands:
            return None
        k = rng.pick([1, 1, 1, 2])
        return [[rng.pick(cands), rng.pick(COEFFS)] for _ in range(k)]
    for _ in range(ne):
        a, b = rng.pick(nids), rng.pick(nids)
        if rng.chance(0.25):
            b = a
        op0 = mk_opics(a, b)
        if op0 is None:
            continue
        e = {'eid': eid, 'nids': [a, b]}
        eid += rng.randrange(1, 3)
        if rng.chance(0.3):
            # site dependent opics (callable)
            tab = []
            for _i in range(L):
                tab.append(mk_opics(a, b))
            e['opics_table'] = tab
            e['opics_buf'] = rng.chance(0.4)
        else:
            e['opics'] = op0
        r = rng.random()
        if r < 0.6:
            e['active'] = True
        elif r < 0.7:
            e['active'] = False
        else:
            e['active_table'] = [rng.chance(0.7) for _ in range(L)]
        edges.append(e)
    # make one accepting path likely: a direct route t0 -> ... -> t1 using identity / charge-0 operators
    if rng.chance(0.8):
        z = [o for o in range(0, K + 1) if ch[o] == 0]
        edges.append({'eid': eid, 'nids': [t0, t0], 'opics': [[0, 1.0]], 'active': True})
        eid += 1
        if t1 != t0:
            edges.append({'eid': eid, 'nids': [t0, t1], 'opics': [[rng.pick(z), rng.pick(COEFFS)]], 'active': True})
            eid += 1
            edges.append({'eid': eid, 'nids': [t1, t1], 'opics': [[0, 1.0]], 'active': True})
            eid += 1
    return {'nodes': [[nid, qn[nid]] for nid in nids], 'edges': edges, 'terminal': [t0, t1]}


def gen_layered(rng: Rng, cfg):
    L, K, ch = cfg['L'], cfg['K'], cfg['charges']
    charged = any(ch[o] for o in ch)
    widths = [1] + [rng.randrange(1, 5) for _ in range(L - 1)] + [1]
    idstyle = rng.pick(['seq', 'random', 'negative', 'offset'])
    tot = sum(widths)
    if idstyle == 'seq':
        ids = list(range(tot))
    elif idstyle == 'random':
        ids = rng.sample(range(-20, 60), tot)
    elif idstyle == 'negative':
        ids = [-(i + 1) for i in range(tot)]
    else:
        off = rng.randrange(0, 8)
        ids = [off + i for i in range(tot)]
    layers = []
    p = 0
    for w in widths:
        layers.append(ids[p:p + w])
        p += w
    qn = {}
    for l, lay in enumerate(layers):
        for nid in lay:
            qn[nid] = rng.randrange(0, 2) if (charged and 0 < l < L) else 0
    edges = []
    eid0 = rng.pick([0, 0, 1, 5, -3])
    eids = []

    def add_edge(a, b):
        need = qn[b] - qn[a]
        cands = [o for o in range(0, K + 1) if ch[o] == need]
        if not cands:
            return False
        k = rng.pick([1, 1, 1, 2, 3])
        opics = [[rng.pick(cands), rng.pick(COEFFS)] for _ in range(k)]
        edges.append({'nids': [a, b], 'opics': opics})
        return True
    for l in range(L):
        A, B = layers[l], layers[l + 1]
        for a in A:
            for _t in range(8):
                if add_edge(a, rng.pick(B)):
                    break
        for b in B:
            if not any(e['nids'][1] == b for e in edges):
                for _t in range(8):
                    if add_edge(rng.pick(A), b):
                        break
        for _ in range(rng.randrange(0, 4)):
            add_edge(rng.pick(A), rng.pick(B))     # parallel / extra edges
    # mergeable structure on purpose: clone a far node that has a single in-edge (same operators, same charge)
    if L >= 2 and rng.chance(0.45):
        for _try in range(6):
            l = rng.randrange(0, L - 1)
            cand = [e for e in edges if e['nids'][0] in layers[l] and sum(1 for f in edges if f['nids'][1] == e['nids'][1]) == 1]
            if not cand:
                continue
            e = rng.pick(cand)
            b = e['nids'][1]
            newid = max(ids) + 1 + rng.randrange(0, 3)
            ids.append(newid)
            layers[l + 1].append(newid)
            qn[newid] = qn[b]
            cl = [list(x) for x in e['opics']]
            if rng.chance(0.35):
                # nearly (not exactly) equal coefficients: a correct simplification must keep the two edges apart
                cl[0][1] = cl[0][1] * rng.pick([1.0 + 2.0 ** -24, 1.0 - 2.0 ** -25, 1.0 + 2.0 ** -40])
            edges.append({'nids': [e['nids'][0], newid], 'opics': cl})
            # outgoing edges of the clone: arbitrary
            for _t in range(8):
                if add_edge(newid, rng.pick(layers[l + 2])):
                    break
            else:
                # no compatible target: copy one outgoing edge of the original
                outs = [f for f in edges if f['nids'][0] == b]
                edges.append({'nids': [newid, outs[0]['nids'][1]], 'opics': [list(x) for x in outs[0]['opics']]})
            break
    # edge ids
    n = len(edges)
    if rng.chance(0.5):
        eidl = [eid0 + i for i in range(n)]
    else:
        eidl = rng.sample(range(-10, 10 + 3 * n), n)
    for e, i in zip(edges, eidl):
        e['eid'] = i
    return {'layers': layers, 'qnums': [[nid, qn[nid]] for nid in ids], 'edges': edges}


def gen_session(prop: str, tier: str, seed: int) -> dict:
    rng = Rng(mix(seed, 'gr-gen'))
    profile = prop if prop in BODY else 'C19'
    charged = rng.chance(0.5)
    K, ch = gen_alphabet(rng, charged)
    Lmax = 5 if tier == 'quick' else 6
    L = rng.pick([1, 2, 2, 3, 3, 3, 4, 4, 5, Lmax])
    if charged:
        d = rng.pick([2, 2, 3])
        qd = list(range(d))
    else:
        d = rng.pick([1, 2, 2, 3])
        qd = [0] * d
    while d ** L > 243 and L > 1:
        L -= 1
    # operator ids are arbitrary integers for the user (the library's own models use -1): relabel 1..K
    if rng.chance(0.4):
        pool_ids = [-1, -2, -3, 7, 11, 100, 2, 5]
        rng.shuffle(pool_ids)
        idmap = {0: 0}
        for o in range(1, K + 1):
            idmap[o] = pool_ids[o - 1]
    else:
        idmap = {o: o for o in range(0, K + 1)}
    if rng.chance(0.3):
        idmap[0] = rng.pick([50, -7, 13, 1000])      # the identity need not be operator 0 (it is an argument of the constructors)
    coef_rep = rng.pick([None, None, None, '0d', '0d', 'np'])      # coefficients as Python floats, 0-d arrays or numpy scalars
    cfg = {'world': 'gr', 'profile': profile, 'tier': tier, 'L': L, 'K': K, 'charges': ch, 'idI': idmap[0], 'coef_rep': coef_rep, 'd': d, 'qd': qd, 'idmap': {str(k): v for k, v in idmap.items()}, 'enabled': ['CBCALLS', 'CBBUF', 'GLOBALS'], 'faultfree': True,
           'opmap_seed': rng.sub()}
    nops = rng.randrange(3, 13) if tier == 'quick' else rng.randrange(4, 25)
    if rng.chance(0.05):
        cfg['pyopt'] = True       # run this session under `python -O`
    ops = []
    first = {'C05': 'from_opchains', 'C16': rng.pick(['random_layered', 'from_opchains', 'from_optrees', 'from_automaton']),
             'C17': rng.pick(['from_optrees', 'from_automaton']), 'C19': rng.pick(['from_opchains', 'random_layered']), 'C20': 'from_opchains'}[profile]
    ops.append(gen_op(rng, cfg, first))
    table = list(BODY[profile].items())
    for _ in range(nops):
        ops.append(gen_op(rng, cfg, rng.wpick(table)))
    use_globals = rng.chance(0.5)
    cfg['faultfree'] = not use_globals
    for op in ops:
        op['env'] = {'gauge': rng.sub(), 'kinds': []}
        if use_globals and rng.chance(0.35):
            op['env']['globals'] = gen_globals(rng)
    # relabel operator ids everywhere in the op specs
    def rel_opics(lst):
        return [[idmap[int(a)], b] for a, b in lst] if lst is not None else None

    def rel_tree(node):
        for e in node['children']:
            e['oid'] = idmap[int(e['oid'])]
            rel_tree(e['node'])
    for op in ops:
        if op['op'] == 'from_opchains':
            for c in op['chains']:
                c['oids'] = [idmap[int(x)] for x in c['oids']]
            if 'mutate' in op:
                op['mutate']['oid'] = idmap[int(op['mutate']['oid'])]
        elif op['op'] == 'chain_as_matrix':
            op['chain']['oids'] = [idmap[int(x)] for x in op['chain']['oids']]
        elif op['op'] == 'from_optrees':
            seen = set()
            for t in op['trees']:
                if t is not None and id(t['root']) not in seen:
                    seen.add(id(t['root']))
                    rel_tree(t['root'])
        elif op['op'] == 'tree_as_matrix':
            if op.get('tree') is not None:
                rel_tree(op['tree']['root'])
        elif op['op'] == 'from_automaton':
            for e in op['autop']['edges']:
                if 'opics' in e:
                    e['opics'] = rel_opics(e['opics'])
                if 'opics_table' in e:
                    e['opics_table'] = [rel_opics(r) for r in e['opics_table']]
        elif op['op'] == 'random_layered':
            for e in op['graph']['edges']:
                e['opics'] = rel_opics(e['opics'])
    # JSON keys must be strings
    cfg['charges'] = {str(idmap[k]): v for k, v in ch.items()}
    return {'world': 'gr', 'prop': prop, 'tier': tier, 'seed': seed, 'config': cfg, 'ops': ops}


def gen_op(rng: Rng, cfg, kind: str) -> dict:
    s = rng.sub
    if kind == 'one_node_graph':
        # the smallest legal graph: a single node that is both terminals (length 0, denotes the scalar 1)
        return {'op': 'one_node_graph', 'nid': rng.pick([0, 3, -2, 17]), 'q': rng.pick([0, 0, 1, -1]),
                'steps': [rng.pick(['rename', 'rename', 'flip', 'simplify', 'as_matrix', 'rename', 'to_mpo']) for _ in range(rng.randrange(1, 5))],
                'new': [rng.pick([5, 7, -1, 100, 1]) for _ in range(4)]}
    if kind == 'from_opchains':
        op = {'op': 'from_opchains', 'chains': gen_chain_list(rng, cfg)}
        if rng.chance(0.3):
            # history: the caller reuses the chain objects of an earlier call after updating them in place
            op['reuse'] = s()
            op['mutate'] = {'which': s(), 'coeff': rng.pick(COEFFS + [0.0, 0.0, 0.0]), 'oid': rng.randrange(0, cfg['K'] + 1), 'pos': s(), 'what': rng.pick(['coeff', 'coeff', 'oid'])}
        return op
    if kind == 'from_optrees':
        return {'op': 'from_optrees', 'trees': gen_tree_list(rng, cfg), 'share': rng.chance(0.3), 'share_leaf': rng.chance(0.4), 'share_sel': rng.randrange(0, 4)}
    if kind == 'from_automaton':
        return {'op': 'from_automaton', 'autop': gen_automaton(rng, cfg)}
    if kind == 'random_layered':
        return {'op': 'random_layered', 'graph': gen_layered(rng, cfg)}
    if kind == 'to_mpo':
        return {'opmap_rep': rng.pick([None, None, None, 'lazy', 'matrix']), 'op': 'to_mpo', 'sel': s(), 'nid_map': rng.chance(0.5)}
    if kind in ('simplify', 'flip', 'deepcopy'):
        return {'op': kind, 'sel': s()}
    if kind == 'merge_edges':
        return {'op': 'merge_edges', 'sel': s(), 'pair': s()}
    if kind == 'rename_node':
        return {'op': 'rename_node', 'sel': s(), 'which': s(), 'new': rng.randrange(-30, 90), 'collide': rng.chance(0.2), 'npid': rng.chance(0.3)}
    if kind == 'rename_edge':
        return {'op': 'rename_edge', 'sel': s(), 'which': s(), 'new': rng.randrange(-30, 120), 'collide': rng.chance(0.2), 'npid': rng.chance(0.3)}
    if kind == 'add':
        return {'op': 'add', 'a': s(), 'b': s()}
    if kind == 'as_matrix':
        return {'op': 'as_matrix', 'sel': s(), 'direction': rng.pick([0, 1])}
    if kind == 'chain_as_matrix':
        return {'op': 'chain_as_matrix', 'chain': gen_chain(rng, cfg)}
    if kind == 'tree_as_matrix':
        t = gen_tree_list(rng, cfg)
        return {'op': 'tree_as_matrix', 'tree': t[0] if t else None}
    raise ValueError(kind)
