"""
GR world executor: operator graphs against a polynomial reference model with exact (Fraction)
coefficients.  Owns C05, C16, C17, the graph clauses of C19 and clauses 2-3 of C20.
"""
import copy
from fractions import Fraction
import numpy as np

from .base import SessionBase
from .seams import load_pytenet
from . import dense as dn

MAX_TERMS = 6000
POOL_MAX = 6


def poly_add(p, q, sign=1):
    r = dict(p)
    for k, c in q.items():
        r[k] = r.get(k, 0) + sign * c
    return {k: c for k, c in r.items() if c != 0}


def poly_close(p, q, rtol=1e-13):
    """
    Equality of two path polynomials up to the rounding of the library's own float additions: coefficients
    are dyadic by construction (then every sum is exact and this is plain equality), except for the
    deliberately nearly-equal coefficients c*(1 +- 2^-24), whose sums may round in the last bit.
    """
    if p == q:
        return True
    scale = max([1.0] + [abs(complex(c)) for c in list(p.values()) + list(q.values())])
    for k in set(p) | set(q):
        if abs(complex(p.get(k, 0)) - complex(q.get(k, 0))) > rtol * scale:
            return False
    return True


def fr(c):
    if isinstance(c, np.ndarray):
        c = c.item()           # a coefficient handed over as 0-d array
    elif isinstance(c, np.generic):
        c = c.item()
    return Fraction(c) if not isinstance(c, complex) else c


def graph_dump(g):
    nodes = tuple(sorted((nid, tuple(n.eids[0]), tuple(n.eids[1]), n.qnum, n.nid) for nid, n in g.nodes.items()))
    edges = tuple(sorted((eid, tuple(e.nids), tuple((a, b.item()) if isinstance(b, np.ndarray) else (a, b) for a, b in e.opics) if isinstance(e.opics, list) else e.opics, e.eid) for eid, e in g.edges.items()))
    return (nodes, edges, tuple(g.nid_terminal))


class TooBig(Exception):
    pass


def graph_poly(g, direction=1):
    """Path polynomial by DFS from terminal[1-direction] following eids[direction]; monomials in site order."""
    start = g.nid_terminal[1 - direction]
    end = g.nid_terminal[direction]
    memo = {}

    def rec(nid):
        if nid in memo:
            return memo[nid]
        if nid == end:
            res = {(): Fraction(1)}
            memo[nid] = res
            return res
        node = g.nodes[nid]
        res = {}
        for eid in node.eids[direction]:
            e = g.edges[eid]
            sub = rec(e.nids[direction])
            for oid, c in e.opics:
                c = fr(c)
                for mono, cc in sub.items():
                    m = ((int(oid),) + mono) if direction == 1 else (mono + (int(oid),))
                    res[m] = res.get(m, 0) + c * cc
            if len(res) > MAX_TERMS:
                raise TooBig()
        memo[nid] = res
        return res
    p = rec(start)
    return {k: c for k, c in p.items() if c != 0}


def depth_profile(g):
    """Number of nodes at each distance from terminal[0] (BFS over out-edges)."""
    cur = [g.nid_terminal[0]]
    prof = []
    depth = {}
    l = 0
    while cur:
        prof.append(len(cur))
        for nid in cur:
            depth[nid] = l
        nxt = []
        for nid in cur:
            for eid in g.nodes[nid].eids[1]:
                b = g.edges[eid].nids[1]
                if b not in nxt:
                    nxt.append(b)
        cur = nxt
        l += 1
        if l > 64:
            break
    return prof, depth


class GObj:
    __slots__ = ('ref', 'poly', 'uid', 'flipped', 'tag', 'retired')

    def __init__(self, ref, poly, uid, tag):
        self.ref = ref
        self.poly = poly
        self.uid = uid
        self.flipped = False
        self.tag = tag
        self.retired = False


class CountingCallable:
    """Simulated user callable for AutOpEdge.active / .opics (environment kind CBCALLS)."""

    def __init__(self, table, log, L, reuse_buffer=False):
        self.table = table
        self.log = log
        self.L = L
        self.reuse_buffer = reuse_buffer
        self.buf = []

    def __call__(self, i):
        self.log.append(i)
        if not (isinstance(i, (int, np.integer)) and 0 <= i < self.L):
            raise IndexError(f'callable invoked with site index {i!r} outside 0..{self.L - 1}')
        if self.reuse_buffer:
            # a user callable that refills and returns one list object (CBBUF)
            self.buf[:] = self.table[i]
            return self.buf
        return self.table[i]


class LazyOps(dict):
    """An operator map whose stored values are placeholders; the operators exist only through item access."""

    def __init__(self, real):
        super().__init__({k: None for k in real})
        self._real = real

    def __getitem__(self, k):
        return self._real[k]

    def get(self, k, default=None):
        return self._real.get(k, default)


class GRSession(SessionBase):
    world = 'gr'

    def __init__(self, session):
        super().__init__(session)
        self.ptn = load_pytenet()
        self.pool = []
        self.uid = 0
        self.L = self.cfg['L']
        self.K = self.cfg['K']
        self.ch = {int(k): v for k, v in self.cfg['charges'].items()}
        self.idI = int(self.cfg.get('idI', 0))
        self._coefs = []
        self.d = self.cfg['d']
        self.qd = list(self.cfg['qd'])
        self.charged = any(self.ch.values())
        self.opmap = self.make_opmap()

    def make_opmap(self):
        g = np.random.Generator(np.random.PCG64(self.cfg['opmap_seed']))
        d = self.d
        qd = np.asarray(self.qd)
        om = {}
        for o in sorted(self.ch):
            if o == self.idI:
                om[o] = np.identity(d)
                continue
            M = g.normal(size=(d, d)) + 1j * g.normal(size=(d, d))
            if g.random() < 0.3:
                M = M.real.copy()
            mask = (np.subtract.outer(qd, qd) == self.ch[o])
            M = np.where(mask, M, 0)
            om[o] = M
        return om

    def coef(self, c, chain=False):
        """A coefficient in the representation of this session (Python float, numpy scalar, 0-d array owned by the caller).
        Chain coefficients are never 0-d arrays: the unchanged `from_opchains` accumulates into the first coefficient object
        of coinciding half-chains (`gamma[edge] += coeff`), i.e. it treats coefficients as immutable numbers (DESIGN 11.5)."""
        rep = self.cfg.get('coef_rep')
        if rep is None or isinstance(c, (list, tuple)):
            return c
        if rep == 'np' or chain:
            return np.float64(c)
        a = np.array(float(c))
        self._coefs.append((a, float(c)))
        return a

    def coefs_unchanged(self):
        for a, v in self._coefs:
            if float(a) != v:
                self.check(False, 'C19', 'coefficient_argument_modified', f'a coefficient passed as 0-d array changed from {v!r} to {float(a)!r}')
                self._coefs = [(x, float(x)) for x, _ in self._coefs]
                return
        if self._coefs:
            self.judged[('C19', 'coefficient_argument_modified')] += 1

    # ---- model helpers ------------------------------------------------------------------------
    def live(self):
        return [o for o in self.pool if not o.retired]

    def pick(self, sel, pred=None):
        c = [o for o in self.live() if pred is None or pred(o)]
        return c[int(sel) % len(c)] if c else None

    def add_obj(self, ref, poly, tag):
        self.uid += 1
        o = GObj(ref, poly, self.uid, tag)
        self.pool.append(o)
        if len(self.live()) > POOL_MAX:
            self.live()[0].retired = True
        self.pool = [x for x in self.pool if not x.retired]
        return o

    def abstract_state(self):
        out = []
        for o in self.pool[-3:]:
            try:
                out.append((len(o.ref.nodes), len(o.ref.edges), o.flipped))
            except Exception:
                out.append(None)
        return tuple(out)

    def poly_dense(self, poly, L):
        d = self.d
        M = np.zeros((d ** L, d ** L), dtype=complex)
        for mono, c in poly.items():
            T = np.identity(1)
            for o in mono:
                T = np.kron(T, self.opmap[o])
            M = M + complex(c) * T
        return M

    def poly_scale(self, poly):
        s = 0.0
        for mono, c in poly.items():
            t = abs(complex(c))
            for o in mono:
                t *= max(float(np.linalg.norm(self.opmap[o], 2)), 1.0)
            s += t
        return max(s, 1.0)

    def chain_poly(self, chains, L):
        p = {}
        for c in chains:
            if c['coeff'] == 0:
                continue
            mono = tuple([self.idI] * c['istart'] + [int(x) for x in c['oids']] + [self.idI] * (L - c['istart'] - len(c['oids'])))
            p[mono] = p.get(mono, 0) + Fraction(c['coeff'])
        return {k: v for k, v in p.items() if v != 0}

    def tree_poly(self, trees, L):
        p = {}

        def rec(node, prefix, coeff):
            if not node['children']:
                mono = tuple(prefix + [self.idI] * (L - len(prefix)))
                p[mono] = p.get(mono, 0) + coeff
                return
            for e in node['children']:
                rec(e['node'], prefix + [int(e['oid'])], coeff * Fraction(e['coeff']))
        for t in trees:
            rec(t['root'], [self.idI] * t['istart'], Fraction(1))
        return {k: v for k, v in p.items() if v != 0}

    def automaton_poly(self, spec, L):
        """Sum over automaton paths of length L between the terminals; None if no path exists."""
        t0, t1 = spec['terminal']
        out = {}
        for e in spec['edges']:
            out.setdefault(e['nids'][0], []).append(e)
        # reachability backwards for path existence and pruning
        memo = {}

        def rec(nid, i):
            key = (nid, i)
            if key in memo:
                return memo[key]
            if i == L:
                res = {(): Fraction(1)} if nid == t1 else {}
                memo[key] = res
                return res
            res = {}
            for e in out.get(nid, []):
                act = e['active_table'][i] if 'active_table' in e else e.get('active', True)
                if not act:
                    continue
                sub = rec(e['nids'][1], i + 1)
                if not sub:
                    continue
                opics = e['opics_table'][i] if 'opics_table' in e else e['opics']
                if opics is None:
                    opics = []
                for oid, c in opics:
                    for mono, cc in sub.items():
                        m = (int(oid),) + mono
                        res[m] = res.get(m, 0) + Fraction(c) * cc
                if len(res) > MAX_TERMS:
                    raise TooBig()
            memo[key] = res
            return res
        # path existence ignores coefficients: an active path with cancelled coefficient still "admits a path"
        exist = {}

        def ex(nid, i):
            key = (nid, i)
            if key in exist:
                return exist[key]
            if i == L:
                exist[key] = (nid == t1)
                return exist[key]
            r = False
            for e in out.get(nid, []):
                act = e['active_table'][i] if 'active_table' in e else e.get('active', True)
                if act and ex(e['nids'][1], i + 1):
                    r = True
                    break
            exist[key] = r
            return r
        if not ex(t0, 0):
            return None
        p = rec(t0, 0)
        return {k: v for k, v in p.items() if v != 0}

    # ---- generic oracles ----------------------------------------------------------------------
    def check_graph(self, o, want, props, what, L=None):
        """Consistency, length and exact polynomial equality (both traversal directions)."""
        g = o.ref
        ok = self.check(bool(g.is_consistent()), props, 'consistent', f'{what}: is_consistent() is False')
        if not ok:
            return False
        if L is not None:
            ln = g.length
            ok &= self.check(ln == L, props, 'length', lambda: f'{what}: length {ln} != {L}')
        try:
            p1 = graph_poly(g, 1)
            p0 = graph_poly(g, 0)
        except TooBig:
            self.skip('polynomial_too_large')
            return ok
        except Exception as e:
            self.check(False, props, 'traversable', f'{what}: {type(e).__name__}: {e}')
            return False
        ok &= self.check(poly_close(p1, p0), props, 'direction_agree', lambda: f'{what}: path polynomial differs between traversal directions')
        ok &= self.check(poly_close(p1, want), props, 'meaning', lambda: f'{what}: denoted operator differs: got {self.fmt(p1)} expected {self.fmt(want)}')
        return ok

    @staticmethod
    def fmt(p):
        items = sorted(p.items())[:6]
        return '{' + ', '.join(f'{k}:{float(v) if not isinstance(v, complex) else v}' for k, v in items) + (', ...' if len(p) > 6 else '') + '}'

    def guarded(self, op, fn, owners, others=()):
        """Run fn; bystander graphs (everything except `others` targets handled by caller) must stay identical."""
        snap = {o.uid: graph_dump(o.ref) for o in self.live()}
        self._snap = snap
        self.env.begin_op(op.get('env', {}))
        exc = None
        res = None
        try:
            res = fn()
        except Exception as e:   # noqa
            exc = e
        finally:
            self.env.end_op()
        return snap, res, exc

    def bystanders_unchanged(self, snap, except_uids, why='operand_or_bystander_modified', extra_props=()):
        self.coefs_unchanged()
        for o in self.live():
            if o.uid in except_uids or o.uid not in snap:
                continue
            same = graph_dump(o.ref) == snap[o.uid]
            self.check(same, ['C19'] + list(extra_props), why, lambda: f'graph #{o.uid} ({o.tag}) changed although it is not the documented target')

    def scribble_graph(self, o, extra_check=None):
        """C19: mutate every mutable slot of a returned graph; nothing else may change."""
        snap = {x.uid: graph_dump(x.ref) for x in self.live() if x.uid != o.uid}
        g = o.ref
        saved = copy.deepcopy(g)
        for n in g.nodes.values():
            for lst in n.eids:
                lst.append(987654)
        for e in g.edges.values():
            e.nids.append(-777)
            e.opics.append((99, 1.0))
        g.nid_terminal.append(31337)
        for x in self.live():
            if x.uid == o.uid:
                continue
            self.check(graph_dump(x.ref) == snap[x.uid], 'C19', 'result_aliases_operand', lambda: f'writing into the returned graph changed graph #{x.uid}')
            self.check(x.ref.nodes is not g.nodes and x.ref.edges is not g.edges, 'C19', 'result_shares_dict', 'returned graph shares its node/edge dict')
            shared = [nid for nid, n in g.nodes.items() if any(n is m for m in x.ref.nodes.values())] + \
                     [eid for eid, e in g.edges.items() if any(e is f for f in x.ref.edges.values())]
            self.check(not shared, 'C19', 'result_shares_node_objects', lambda: f'returned graph shares node/edge objects {shared[:4]} with graph #{x.uid}')
        if extra_check:
            extra_check()
        o.ref.__dict__.update(saved.__dict__)

    # ---- constructors -------------------------------------------------------------------------
    def op_from_opchains(self, op):
        ptn = self.ptn
        L = self.L
        spec = [c for c in op['chains'] if c['istart'] + len(c['oids']) <= L]
        store = getattr(self, 'chain_store', None)
        if store is None:
            store = self.chain_store = []
        chains = None
        ridx = None
        if 'reuse' in op and store:
            ridx = int(op['reuse']) % len(store)
            chains, spec = store[ridx]
            mu = op['mutate']
            k = int(mu['which']) % len(chains)
            spec = [dict(c, oids=list(c['oids']), qnums=list(c['qnums'])) for c in spec]
            if mu['what'] == 'coeff' or not self.charged and False:
                chains[k].coeff = self.coef(mu['coeff'], chain=True)
                spec[k]['coeff'] = mu['coeff']
            else:
                pos = int(mu['pos']) % len(chains[k].oids)
                old_oid = chains[k].oids[pos]
                if self.ch.get(int(mu['oid']), 0) == self.ch.get(int(old_oid), 0):
                    chains[k].oids[pos] = int(mu['oid'])
                    spec[k]['oids'][pos] = int(mu['oid'])
                else:
                    chains[k].coeff = self.coef(mu['coeff'], chain=True)
                    spec[k]['coeff'] = mu['coeff']
            self.probe('chain_objects_reused_after_inplace_update')
            store[ridx] = (chains, spec)
        if not any(c['coeff'] != 0 for c in spec):
            return 'skipped'
        if chains is None:
            chains = [ptn.OpChain(list(c['oids']), list(c['qnums']), self.coef(c['coeff'], chain=True), c['istart']) for c in spec]
            store.append((chains, spec))
            if len(store) > 4:
                store.pop(0)
        else:
            store[ridx] = (chains, spec)      # the same objects, now with their updated description
        before = [(list(c.oids), list(c.qnums), c.coeff, c.istart) for c in chains]
        snap, g, exc = self.guarded(op, lambda: ptn.OpGraph.from_opchains(chains, L, self.idI), ('C05',))
        self.bystanders_unchanged(snap, set())
        after = [(list(c.oids), list(c.qnums), c.coeff, c.istart) for c in chains]
        self.check(before == after, 'C19', 'chains_modified', 'from_opchains modified its chain arguments')
        if exc is not None:
            self.check(False, ['C05', 'C20'], 'raised', f'from_opchains: {type(exc).__name__}: {exc} (chains {[(c["oids"], c["coeff"], c["istart"]) for c in spec][:5]})')
            return 'raised'
        self.judged[('C05', 'raised')] += 1
        want = self.chain_poly(spec, L)
        o = self.add_obj(g, want, 'chains')
        self.check_graph(o, want, 'C05', 'from_opchains', L)
        nz = sum(1 for c in spec if c['coeff'] != 0)
        if len(set(tuple((int(a), complex(np.asarray(b).item())) for a, b in e.opics) for e in g.edges.values())) < len(g.edges):
            self.probe('graph_shared_operators')
        # C20 clause 2: bond dimension at any cut never exceeds the number of chains with non-zero coefficient
        prof, _ = depth_profile(g)
        self.check(max(prof) <= nz, 'C20', 'width_le_number_of_chains', lambda: f'layer widths {prof} exceed number of non-zero chains {nz}')
        if nz == 1 or len([1 for c in spec if c['coeff'] != 0 and c['istart'] + len(c['oids']) == L]) >= 1:
            self.probe('opchains_term_reaches_last_site')

        def chains_intact():
            now = [(list(c.oids), list(c.qnums), c.coeff, c.istart) for c in chains]
            self.check(now == before, 'C19', 'result_aliases_argument', 'writing into the graph changed a chain argument')
        self.scribble_graph(o, chains_intact)
        return 'ok'

    def build_tree(self, spec, shared_leaf=None, roots=None):
        """shared_leaf: one OpTreeNode object used for every leaf (a caller reusing `leaf = OpTreeNode([], 0)`);
        roots: memo id(spec root) -> built root, so that trees given the same description share their node objects."""
        ptn = self.ptn

        def rec(node):
            if not node['children'] and shared_leaf is not None and node['q'] == 0:
                return shared_leaf
            return ptn.OpTreeNode([ptn.OpTreeEdge(e['oid'], self.coef(e['coeff']), rec(e['node'])) for e in node['children']], node['q'])
        if roots is not None and id(spec['root']) in roots:
            root = roots[id(spec['root'])]
        else:
            root = rec(spec['root'])
            if roots is not None:
                roots[id(spec['root'])] = root
        return ptn.OpTree(root, spec['istart'])

    def op_from_optrees(self, op):
        ptn = self.ptn
        L = self.L
        specs = [t for t in op['trees'] if t is not None]
        if not specs:
            return 'skipped'

        def height(n):
            return 0 if not n['children'] else 1 + max(height(e['node']) for e in n['children'])
        specs = [t for t in specs if t['istart'] + height(t['root']) <= L and t['istart'] < L]
        if not specs:
            return 'skipped'
        # the same sub-tree description used with another start site shares its node objects (op['share'])
        if op.get('share') and len(specs) >= 1:
            extra = []
            for t in specs:
                h = height(t['root'])
                for ist in range(0, L - h + 1):
                    if ist != t['istart'] and len(extra) < 2 and (ist + int(op.get('share_sel', 0))) % 2 == 0:
                        extra.append({'istart': ist, 'root': t['root']})
            specs = specs + extra
            if extra:
                self.probe('tree_objects_shared_between_trees')
        leaf = ptn.OpTreeNode([], 0) if op.get('share_leaf') else None
        roots = {} if op.get('share') else None
        trees = [self.build_tree(t, leaf, roots) for t in specs]
        snap, g, exc = self.guarded(op, lambda: ptn.OpGraph.from_optrees(trees, L, self.idI), ('C17',))
        self.bystanders_unchanged(snap, set())
        if exc is not None:
            self.check(False, 'C17', 'raised', f'from_optrees: {type(exc).__name__}: {exc}')
            return 'raised'
        self.judged[('C17', 'raised')] += 1
        want = self.tree_poly(specs, L)
        o = self.add_obj(g, want, 'trees')
        self.check_graph(o, want, 'C17', 'from_optrees', L)
        if any(height(t['root']) + t['istart'] == L for t in specs):
            self.probe('tree_leaf_at_terminal')
        self.scribble_graph(o)
        return 'ok'

    def op_from_automaton(self, op):
        ptn = self.ptn
        L = self.L
        spec = op['autop']
        try:
            want = self.automaton_poly(spec, L)
        except TooBig:
            self.skip('polynomial_too_large')
            return 'skipped'
        if want is None:
            self.skip('automaton_without_path_outside_domain')
            return 'skipped'
        calls = []
        nodes = [ptn.AutOpNode(nid, [], [], q) for nid, q in spec['nodes']]
        aut = ptn.AutOp(nodes, [], list(spec['terminal']))
        ncall = 0
        for e in spec['edges']:
            opics = e.get('opics')
            if 'opics_table' in e:
                tab = [[(int(a), b) for a, b in (row or [])] for row in e['opics_table']]
                opics = CountingCallable(tab, calls, L, reuse_buffer=bool(e.get('opics_buf')))
                if e.get('opics_buf'):
                    self.env.fire('CBBUF')
                ncall += 1
            else:
                opics = [(int(a), self.coef(b)) for a, b in opics]
            active = e.get('active', True)
            if 'active_table' in e:
                active = CountingCallable(list(e['active_table']), calls, L)
                ncall += 1
            aut.add_connect_edge(ptn.AutOpEdge(e['eid'], list(e['nids']), opics, active))
        if ncall:
            self.env.fire('CBCALLS')
        aut_dump_before = [(e.eid, tuple(e.nids), repr(e.opics) if isinstance(e.opics, list) else repr(e.opics.table)) for e in aut.edges.values()]
        snap, g, exc = self.guarded(op, lambda: ptn.OpGraph.from_automaton(aut, L), ('C17',))
        self.bystanders_unchanged(snap, set())
        bad = [i for i in calls if not (isinstance(i, (int, np.integer)) and 0 <= i < L)]
        self.check(not bad, 'C17', 'callable_site_index_in_range', lambda: f'site-dependent callables invoked with indices {bad[:5]} outside 0..{L-1}')
        if exc is not None:
            self.check(False, 'C17', 'raised', f'from_automaton: {type(exc).__name__}: {exc}')
            return 'raised'
        self.judged[('C17', 'raised')] += 1
        o = self.add_obj(g, want, 'automaton')
        self.check_graph(o, want, 'C17', 'from_automaton', L)
        if len(g.nodes) - 2 < (len(spec['nodes']) - 2) * (L - 1):
            self.probe('automaton_dead_state_pruned')

        def aut_dump():
            return [(e.eid, tuple(e.nids), repr(e.opics) if isinstance(e.opics, list) else repr(e.opics.table)) for e in aut.edges.values()]
        before = aut_dump_before

        def automaton_intact():
            self.check(aut_dump() == before, 'C19', 'result_aliases_argument', 'writing into the unrolled graph changed the operator lists of the automaton')
        self.scribble_graph(o, automaton_intact)
        return 'ok'

    def op_random_layered(self, op):
        ptn = self.ptn
        spec = op['graph']
        if len(spec['layers']) != self.L + 1:
            return 'skipped'
        qn = {nid: q for nid, q in spec['qnums']}
        try:
            nodes = {nid: ptn.OpGraphNode(nid, [], [], qn[nid]) for lay in spec['layers'] for nid in lay}
            g = ptn.OpGraph(list(nodes.values()), [], [spec['layers'][0][0], spec['layers'][-1][0]])
            for e in spec['edges']:
                g.add_connect_edge(ptn.OpGraphEdge(e['eid'], list(e['nids']), [(int(a), self.coef(b)) for a, b in e['opics']]))
        except Exception as e:
            self.check(False, 'C16', 'raised', f'building a layered graph through the public constructors: {type(e).__name__}: {e}')
            return 'raised'
        # model from the spec itself (independent of the library's merging of duplicate operators)
        want = {}
        out = {}
        for e in spec['edges']:
            out.setdefault(e['nids'][0], []).append(e)
        end = spec['layers'][-1][0]

        def rec(nid):
            if nid == end:
                return {(): Fraction(1)}
            res = {}
            for e in out.get(nid, []):
                sub = rec(e['nids'][1])
                for oid, c in e['opics']:
                    for mono, cc in sub.items():
                        m = (int(oid),) + mono
                        res[m] = res.get(m, 0) + Fraction(c) * cc
            return res
        want = {k: v for k, v in rec(spec['layers'][0][0]).items() if v != 0}
        o = self.add_obj(g, want, 'layered')
        if len(set((tuple(e['nids'])) for e in spec['edges'])) < len(spec['edges']):
            self.probe('graph_parallel_edges')
        self.check_graph(o, want, 'C16', 'layered graph', self.L)
        return 'ok'

    def op_deepcopy(self, op):
        src = self.pick(op['sel'])
        if src is None:
            return 'skipped'
        snap, g, exc = self.guarded(op, lambda: copy.deepcopy(src.ref), ('C19',))
        self.bystanders_unchanged(snap, set())
        if exc is not None:
            return 'raised'
        o = self.add_obj(g, dict(src.poly), src.tag)
        o.flipped = src.flipped
        self.scribble_graph(o)
        return 'ok'

    # ---- rewrites (C16) ----------------------------------------------------------------------
    def _rewrite(self, op, o, fn, want, what, expect_exc=None):
        snap, res, exc = self.guarded(op, fn, ('C16',))
        self.bystanders_unchanged(snap, {o.uid})
        if expect_exc is not None:
            ok = isinstance(exc, expect_exc)
            self.check(ok, 'C16', 'rename_to_existing_id_rejected', lambda: f'{what}: expected {expect_exc.__name__}, got {type(exc).__name__ if exc else "no exception"}')
            self.check(graph_dump(o.ref) == snap[o.uid], 'C16', 'rejected_rewrite_leaves_graph_unchanged', f'{what}: graph changed by a rejected rename')
            return 'rejected'
        if exc is not None:
            self.check(False, 'C16', 'raised', f'{what}: {type(exc).__name__}: {exc}')
            o.retired = True
            self.pool = [x for x in self.pool if not x.retired]
            return 'raised'
        self.judged[('C16', 'raised')] += 1
        o.poly = want
        if not self.check_graph(o, want, 'C16', what):
            # resynchronise the model so that later steps judge their own transition only
            try:
                o.poly = graph_poly(o.ref, 1)
            except Exception:
                o.retired = True
                self.pool = [x for x in self.pool if not x.retired]
        return 'ok'

    def op_simplify(self, op):
        o = self.pick(op['sel'])
        if o is None:
            return 'skipped'
        g = o.ref
        n0, e0 = len(g.nodes), len(g.edges)
        try:
            prof0, _ = depth_profile(g)
        except Exception:
            prof0 = None
        st = self._rewrite(op, o, lambda: g.simplify(), dict(o.poly), 'simplify')
        if st != 'ok' or o.retired:
            return st
        n1, e1 = len(g.nodes), len(g.edges)
        self.check(n1 <= n0 and e1 <= e0, 'C16', 'simplify_not_larger', lambda: f'nodes {n0}->{n1}, edges {e0}->{e1}')
        if n1 < n0 or e1 < e0:
            self.probe('simplify_reduced')
        prof1, _ = depth_profile(g)
        if prof0 is not None and not o.flipped:
            self.check(len(prof1) == len(prof0) and all(a <= b for a, b in zip(prof1, prof0)), 'C20', 'simplify_width_not_larger',
                       lambda: f'layer widths {prof0} -> {prof1}')
        # idempotent
        d1 = graph_dump(g)
        try:
            g.simplify()
            self.check(graph_dump(g) == d1, 'C16', 'simplify_idempotent', 'a second simplify changed the graph again')
        except Exception as e:
            self.check(False, 'C16', 'raised', f'second simplify: {type(e).__name__}: {e}')
        return 'ok'

    def mergeable_pairs(self, g):
        pairs = []
        for direction in (0, 1):
            for nid in sorted(g.nodes, key=lambda x: (x,)):
                eids = g.nodes[nid].eids[1 - direction]
                for i in range(len(eids)):
                    for j in range(i + 1, len(eids)):
                        e1, e2 = g.edges[eids[i]], g.edges[eids[j]]
                        if e1.nids[direction] != nid or e2.nids[direction] != nid:
                            continue
                        f1, f2 = e1.nids[1 - direction], e2.nids[1 - direction]
                        if f1 == f2:
                            pairs.append((eids[i], eids[j], direction, 'same_far'))
                        elif (e1.opics == e2.opics and len(g.nodes[f1].eids[direction]) == 1 and len(g.nodes[f2].eids[direction]) == 1
                              and g.nodes[f1].qnum == g.nodes[f2].qnum):
                            pairs.append((eids[i], eids[j], direction, 'merge_far'))
        return pairs

    def op_merge_edges(self, op):
        o = self.pick(op['sel'])
        if o is None:
            return 'skipped'
        g = o.ref
        pairs = self.mergeable_pairs(g)
        if not pairs:
            return 'skipped'
        e1, e2, direction, how = pairs[int(op['pair']) % len(pairs)]
        self.probe('merge_' + how)
        return self._rewrite(op, o, lambda: g.merge_edges(e1, e2, direction), dict(o.poly), f'merge_edges({e1},{e2},{direction}) [{how}]')

    def op_rename_node(self, op):
        o = self.pick(op['sel'])
        if o is None:
            return 'skipped'
        g = o.ref
        nids = sorted(g.nodes)
        cur = nids[int(op['which']) % len(nids)]
        if op.get('collide'):
            new = nids[(int(op['which']) + 1) % len(nids)]
            if new == cur:
                return 'skipped'
            return self._rewrite(op, o, lambda: g.rename_node_id(cur, new), dict(o.poly), f'rename_node_id({cur},{new})', expect_exc=ValueError)
        new = int(op['new']) if not op.get('npid') else np.int64(op['new'])      # ids from np.arange / rng.integers are numpy integers
        if new in g.nodes:
            return self._rewrite(op, o, lambda: g.rename_node_id(cur, new), dict(o.poly), f'rename_node_id({cur},{new})', expect_exc=ValueError)
        if cur in g.nid_terminal:
            self.probe('rename_terminal_node')
        return self._rewrite(op, o, lambda: g.rename_node_id(cur, new), dict(o.poly), f'rename_node_id({cur},{new})')

    def op_one_node_graph(self, op):
        """Degenerate end of C16 / C17: a graph of length 0 (one node, both terminals) under renaming, flipping,
        simplification and dense / MPO conversion.  Self-contained: the graph does not enter the pool."""
        ptn = self.ptn
        P = ['C16']
        nid = int(op['nid'])
        snap, g, exc = self.guarded(op, lambda: ptn.OpGraph([ptn.OpGraphNode(nid, [], [], int(op['q']))], [], [nid, nid]), P)
        self.bystanders_unchanged(snap, set())
        if exc is not None:
            self.check(False, P, 'raised', f'one-node OpGraph: {type(exc).__name__}: {exc}')
            return 'raised'
        news = list(op['new'])
        for k, step in enumerate(op['steps']):
            cur = g.nid_terminal[0]
            try:
                if step == 'rename':
                    new = int(news[k % len(news)])
                    if new == cur:
                        continue
                    g.rename_node_id(cur, new)
                    self.check(list(g.nodes) == [new] and g.nodes[new].nid == new, P, 'one_node_renamed', lambda: f'nodes {list(g.nodes)} after rename_node_id({cur},{new})')
                elif step == 'flip':
                    g.flip()
                elif step == 'simplify':
                    g.simplify()
                elif step == 'as_matrix':
                    M = np.asarray(g.as_matrix(self.opmap))
                    self.check(M.shape == (1, 1) and abs(M[0, 0] - 1) == 0, ['C17'], 'one_node_dense_meaning', lambda: f'as_matrix of the one-node graph: {M!r}')
                elif step == 'to_mpo':
                    mpo = ptn.MPO.from_opgraph(self.qd, g, self.opmap)
                    self.check(len(mpo.A) == 0 or np.asarray(mpo.as_matrix()).shape == (1, 1), ['C05'], 'one_node_mpo', 'MPO of the one-node graph')
                    continue
            except Exception as e:   # noqa
                self.check(False, P, 'raised', f'one-node graph, {step}: {type(e).__name__}: {e}')
                return 'raised'
            t = list(g.nid_terminal)
            self.check(len(g.nodes) == 1 and len(g.edges) == 0 and len(t) == 2 and t[0] == t[1] and t[0] in g.nodes, P, 'one_node_terminals',
                       lambda: f'after {step}: nodes {list(g.nodes)}, terminals {t}')
            try:
                okc = bool(g.is_consistent())
            except Exception as e:   # noqa
                okc = False
            self.check(okc, P, 'consistent', lambda: f'one-node graph inconsistent after {step} (terminals {t}, nodes {list(g.nodes)})')
        self.probe('one_node_graph_history')
        return 'ok'

    def op_rename_edge(self, op):
        o = self.pick(op['sel'])
        if o is None:
            return 'skipped'
        g = o.ref
        eids = sorted(g.edges)
        if not eids:
            return 'skipped'
        cur = eids[int(op['which']) % len(eids)]
        if op.get('collide'):
            new = eids[(int(op['which']) + 1) % len(eids)]
            if new == cur:
                return 'skipped'
            return self._rewrite(op, o, lambda: g.rename_edge_id(cur, new), dict(o.poly), f'rename_edge_id({cur},{new})', expect_exc=ValueError)
        new = int(op['new']) if not op.get('npid') else np.int64(op['new'])
        if new in g.edges:
            return self._rewrite(op, o, lambda: g.rename_edge_id(cur, new), dict(o.poly), f'rename_edge_id({cur},{new})', expect_exc=ValueError)
        return self._rewrite(op, o, lambda: g.rename_edge_id(cur, new), dict(o.poly), f'rename_edge_id({cur},{new})')

    def op_flip(self, op):
        o = self.pick(op['sel'])
        if o is None:
            return 'skipped'
        want = {tuple(reversed(k)): v for k, v in o.poly.items()}
        st = self._rewrite(op, o, lambda: o.ref.flip(), want, 'flip')
        if st == 'ok':
            o.flipped = not o.flipped
        return st

    def op_add(self, op):
        a = self.pick(op['a'])
        if a is None:
            return 'skipped'

        def compat(b):
            try:
                return (b.flipped == a.flipped and b.ref.length == a.ref.length and
                        b.ref.nodes[b.ref.nid_terminal[0]].qnum == a.ref.nodes[a.ref.nid_terminal[0]].qnum and
                        b.ref.nodes[b.ref.nid_terminal[1]].qnum == a.ref.nodes[a.ref.nid_terminal[1]].qnum)
            except Exception:
                return False
        b = self.pick(op['b'], compat)
        if b is None:
            return 'skipped'
        if len(a.poly) + len(b.poly) > MAX_TERMS:
            return 'skipped'
        if a is b:
            self.probe('graph_add_self')
        if set(a.ref.nodes) & set(b.ref.nodes) or set(a.ref.edges) & set(b.ref.edges):
            self.probe('graph_id_collision_in_add')
        want = poly_add(a.poly, b.poly)
        bdump = graph_dump(b.ref)
        st = self._rewrite(op, a, lambda: a.ref.add(b.ref), want, 'add')
        if a is not b:
            self.check(graph_dump(b.ref) == bdump, ['C16', 'C19'], 'add_leaves_other_untouched', 'OpGraph.add modified the other graph')
            if st == 'ok' and not a.retired:
                shared = [nid for nid, n in a.ref.nodes.items() if any(n is m for m in b.ref.nodes.values())] + \
                         [eid for eid, e in a.ref.edges.items() if any(e is f for f in b.ref.edges.values())]
                self.check(not shared, ['C19', 'C16'], 'add_shares_objects_with_other', lambda: f'after add the graphs share node/edge objects {shared[:4]}')
        return st

    # ---- conversions / reads ---------------------------------------------------------------
    def op_to_mpo(self, op):
        ptn = self.ptn
        o = self.pick(op['sel'], lambda x: not (x.flipped and self.charged))
        if o is None:
            return 'skipped'
        g = o.ref
        L = g.length
        if self.d ** L > 256:
            return 'skipped'
        want_map = bool(op.get('nid_map'))
        qd_arg = np.array(self.qd, dtype=int)
        om_before = {k: v.tobytes() for k, v in self.opmap.items()}
        omrep = op.get('opmap_rep')
        opmap_arg = self.opmap
        if omrep == 'lazy':
            opmap_arg = LazyOps(self.opmap)          # a mapping that produces its operators on access
            self.probe('operator_map_lazy_mapping')
        elif omrep == 'matrix':
            opmap_arg = {k: np.asmatrix(v) for k, v in self.opmap.items()}     # array subclass with its own '*'
            self.probe('operator_map_np_matrix')
        snap, mpo, exc = self.guarded(op, lambda: ptn.MPO.from_opgraph(qd_arg, g, opmap_arg, compute_nid_map=want_map), ('C05',))
        self.bystanders_unchanged(snap, set(), extra_props=())
        self.check({k: v.tobytes() for k, v in self.opmap.items()} == om_before, 'C19', 'opmap_modified', 'from_opgraph modified the operator map')
        if exc is not None:
            self.check(False, ['C05', 'C02'], 'raised', f'MPO.from_opgraph on a consistent graph ({o.tag}): {type(exc).__name__}: {exc}')
            return 'raised'
        self.judged[('C05', 'raised')] += 1
        try:
            M = dn.mpo_to_matrix(mpo.A)
        except Exception as e:
            self.check(False, ['C05', 'C02'], 'mpo_contractible', f'{type(e).__name__}: {e}')
            return 'ok'
        want = self.poly_dense(o.poly, L)
        sc = self.poly_scale(o.poly)
        dev = float(np.abs(M - want).max())
        self.check(dev <= 1e-12 * sc, 'C05', 'mpo_preserves_operator', lambda: f'|MPO - operator|={dev:.3e} (scale {sc:.3e}, graph from {o.tag})')
        prof, depth = depth_profile(g)
        # bond quantum numbers come from the graph nodes
        okq = len(mpo.qD) == len(prof)
        by_depth = {}
        for nid, l in depth.items():
            by_depth.setdefault(l, []).append(nid)
        if okq:
            for l in range(len(prof)):
                qs = [g.nodes[nid].qnum for nid in sorted(by_depth[l])]
                okq &= (list(np.asarray(mpo.qD[l]).tolist()) == qs)
        self.check(okq, 'C05', 'bond_qnums_from_nodes', lambda: f'qD={[list(q) for q in mpo.qD]} vs node charges by depth')
        if want_map:
            nm = getattr(mpo, 'nid_map', None)
            okm = isinstance(nm, dict) and set(nm.keys()) == set(g.nodes.keys())
            if okm:
                for nid, (l, k) in nm.items():
                    okm &= (l == depth.get(nid) and 0 <= k < len(mpo.qD[l]) and mpo.qD[l][k] == g.nodes[nid].qnum
                            and sorted(by_depth[l])[k] == nid)
            self.check(okm, 'C05', 'nid_map_locates_nodes', lambda: f'nid_map={nm}')
        # C02: block sparsity of the result under its own labels
        for i, A in enumerate(mpo.A):
            if dn.is_int_1d_array(mpo.qd) and dn.is_int_1d_array(mpo.qD[i]) and dn.is_int_1d_array(mpo.qD[i + 1]):
                off = dn.offsupport_max(A, [mpo.qd, -np.asarray(mpo.qd), mpo.qD[i], -np.asarray(mpo.qD[i + 1])])
                self.check(off == 0.0, 'C02', 'block_sparse', lambda: f'from_opgraph: A[{i}] off-support entry {off!r}')
            else:
                self.check(False, 'C02', 'qD_is_int_array', f'from_opgraph: labels of A[{i}] are not integer arrays')
        # C20: bond dimensions equal layer widths
        self.check([a.shape[2] for a in mpo.A] + [mpo.A[-1].shape[3]] == prof, 'C05', 'bond_dims_are_layer_widths', lambda: f'bond dims vs widths {prof}')
        # C19: the MPO shares nothing with graph / opmap / qd
        gd = graph_dump(g)
        qdb = qd_arg.tobytes()
        for a in list(mpo.A) + [mpo.qd] + list(mpo.qD):
            if isinstance(a, np.ndarray) and a.flags.writeable:
                a[...] = a * 3 + 7 if not np.issubdtype(a.dtype, np.integer) else a + (7919 if a.dtype.itemsize >= 4 else 37)
        self.check(graph_dump(g) == gd and {k: v.tobytes() for k, v in self.opmap.items()} == om_before and qd_arg.tobytes() == qdb,
                   'C19', 'result_aliases_argument', 'writing into the MPO changed the graph, the operator map or the qd argument')
        return 'ok'

    def op_as_matrix(self, op):
        o = self.pick(op['sel'])
        if o is None:
            return 'skipped'
        g = o.ref
        L = g.length
        if self.d ** L > 256:
            return 'skipped'
        direction = int(op.get('direction', 1))
        snap, M, exc = self.guarded(op, lambda: g.as_matrix(self.opmap, direction), ('C17',))
        self.bystanders_unchanged(snap, set())
        if exc is not None:
            self.check(False, 'C17', 'raised', f'OpGraph.as_matrix: {type(exc).__name__}: {exc}')
            return 'raised'
        want = self.poly_dense(o.poly, L)
        sc = self.poly_scale(o.poly)
        M = np.asarray(M)
        if not o.poly and M.shape != want.shape:
            self.skip('as_matrix_of_zero_graph_shape')
            return 'ok'
        ok = M.shape == want.shape
        dev = float(np.abs(M - want).max()) if ok else np.inf
        self.check(ok and dev <= 1e-12 * sc, 'C17', 'graph_dense_meaning', lambda: f'direction {direction}: |as_matrix - symbolic meaning|={dev:.3e} shape {M.shape}')
        return 'ok'

    def op_chain_as_matrix(self, op):
        ptn = self.ptn
        c = op['chain']
        ch = ptn.OpChain(list(c['oids']), list(c['qnums']), c['coeff'], c['istart'])
        n = len(c['oids'])
        if self.d ** n > 256:
            return 'skipped'
        snap, M, exc = self.guarded(op, lambda: ch.as_matrix(self.opmap), ('C17',))
        if exc is not None:
            self.check(False, 'C17', 'raised', f'OpChain.as_matrix: {type(exc).__name__}: {exc}')
            return 'raised'
        poly = {tuple(int(x) for x in c['oids']): Fraction(c['coeff'])}
        want = self.poly_dense(poly, n)
        dev = float(np.abs(np.asarray(M) - want).max()) if np.asarray(M).shape == want.shape else np.inf
        self.check(dev <= 1e-12 * self.poly_scale(poly), 'C17', 'chain_dense_meaning', lambda: f'|OpChain.as_matrix - meaning|={dev:.3e}')
        return 'ok'

    def op_tree_as_matrix(self, op):
        spec = op.get('tree')
        if spec is None:
            return 'skipped'

        def height(n):
            return 0 if not n['children'] else 1 + max(height(e['node']) for e in n['children'])
        h = height(spec['root'])
        if h == 0 or self.d ** h > 256:
            return 'skipped'
        tree = self.build_tree(spec)
        snap, M, exc = self.guarded(op, lambda: tree.as_matrix(self.opmap), ('C17',))
        if exc is not None:
            self.check(False, 'C17', 'raised', f'OpTree.as_matrix: {type(exc).__name__}: {exc}')
            return 'raised'
        hh = tree.height()
        self.check(hh == h, 'C17', 'tree_height', lambda: f'height() {hh} vs {h}')
        poly = self.tree_poly([{'istart': 0, 'root': spec['root']}], h)
        want = self.poly_dense(poly, h)
        M = np.asarray(M)
        dev = float(np.abs(M - want).max()) if M.shape == want.shape else np.inf
        self.check(dev <= 1e-12 * self.poly_scale(poly), 'C17', 'tree_dense_meaning', lambda: f'|OpTree.as_matrix - meaning|={dev:.3e} shape {M.shape}')
        return 'ok'
