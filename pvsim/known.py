"""
Known findings (DESIGN.md R6).  /verif/known_findings.json is committed and never written at run
time.  An entry with status "open" suppresses exactly the violations its matcher recognises (they
are printed as KNOWN-FINDING lines); a "fixed" entry suppresses nothing.
"""
import json
import os

VERIF = os.path.dirname(os.path.dirname(os.path.abspath(__file__)))
_CACHE = None


def load():
    global _CACHE
    if _CACHE is None:
        with open(os.path.join(VERIF, 'known_findings.json')) as f:
            _CACHE = json.load(f)
    return _CACHE


def _m_f1(v, sess):
    return v['op'] in ('from_opchains', 'ham', 'c20_chains') and 'AssertionError' in v['detail'] and v['clause'] == 'raised'


def _m_f2(v, sess):
    return v['op'] == 'ham' and 'already exists' in v['detail'] and 'edge with ID' in v['detail']


def _m_f3(v, sess):
    return ('from_vector' in v['detail'] or v['op'] == 'from_vector') and v['clause'] in ('qD_is_int_array',)


def _m_f4(v, sess):
    return v.get('ctx', {}).get('int_dtype') is True and v['op'] in ('orthonormalize', 'compress')


def _m_f5(v, sess):
    return v.get('ctx', {}).get('callback') == 'CBALIAS'


def _m_f6(v, sess):
    return v.get('ctx', {}).get('lanczos_lost_orthogonality') is True


MATCHERS = {'F6': _m_f6, 'F1': _m_f1, 'F2': _m_f2, 'F3': _m_f3, 'F4': _m_f4, 'F5': _m_f5}


def match(v, sess):
    for e in load()['findings']:
        if e.get('status') != 'open':
            continue
        m = MATCHERS.get(e['id'])
        if m is not None and any(p in e['properties'] for p in v['props']) and m(v, sess):
            return e['id']
    return None


def describe(kid):
    for e in load()['findings']:
        if e['id'] == kid:
            return f'{kid}: {e["what_fails"]}'
    return kid
