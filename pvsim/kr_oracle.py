"""
Oracles for the Krylov routines (C14, C15), shared by the KR world (simulated user callbacks) and by
the call-boundary monitors on the Krylov calls TDVP and DMRG issue in TN sessions.
All functions return lists of (clause, detail) for failed clauses, plus classification info.
"""
import numpy as np
import scipy.linalg as sla

REG_BETA = 1e-4      # regular class: every reference beta (relative to ||A||) at least this
EXH_BETA = 1e-13     # exhaustion: reference beta (relative) at most this
TOL = 1e-9


def krylov_reference(A, v, mmax):
    """
    Arnoldi / Lanczos with full (twice repeated) re-orthogonalisation on the model matrix.
    Returns (betas, Q, normA) where betas[j] is the relative norm of the residual after step j.
    """
    n = len(v)
    normA = float(np.linalg.norm(A, 2)) if A.size else 0.0
    v = np.asarray(v, dtype=complex)
    Q = [v / np.linalg.norm(v)]
    betas = []
    for j in range(min(mmax, n)):
        w = A @ Q[j]
        Qm = np.array(Q).T
        for _ in range(2):
            w = w - Qm @ (Qm.conj().T @ w)
        b = float(np.linalg.norm(w))
        rel = b / normA if normA > 0 else 0.0
        betas.append(rel)
        if rel <= EXH_BETA or j == n - 1:
            break
        Q.append(w / b)
    return betas, np.array(Q).T, normA


def classify(A, v, m):
    """
    -> (cls, K, normA, Q) with cls in 'regular' (Krylov dimension >= m, all betas healthy),
    'exhausted' (Krylov space of dimension K < m, healthy up to there, or K == m reached exactly
    with the space being invariant), 'grey' (some beta between the two thresholds: not judged).
    K is the dimension of the Krylov space if it was determined (<= m), else None.
    """
    n = len(v)
    betas, Q, normA = krylov_reference(A, v, m)
    K = None
    for j, b in enumerate(betas):
        if b <= EXH_BETA or j == n - 1:
            if j == n - 1 and b > REG_BETA:
                # cannot happen mathematically (n+1 orthogonal vectors); treat as grey
                return 'grey', None, normA, Q
            if j == n - 1 and b > EXH_BETA:
                return 'grey', None, normA, Q
            K = j + 1
            break
        if b < REG_BETA:
            return 'grey', None, normA, Q
    if K is None:
        return 'regular', None, normA, Q
    if K >= m:
        # the m requested vectors exist and the space closes exactly at m (K == m)
        return 'regular_full', K, normA, Q
    return 'exhausted', K, normA, Q


def orth_horizon(A, Q, normA, thresh=1e-5):
    """
    Plain (un-reorthogonalised) Lanczos keeps its vectors orthogonal only until the first Ritz pair
    converges (Paige): the component of v_{j+1} along a Ritz vector y_i is about
    eps*|A| / (beta_j |s_ji|), s_ji the bottom entry of the eigenvector of T_j.  Returns the number of
    leading Lanczos vectors for which that quantity stays below eps/thresh, computed from the
    re-orthogonalised reference basis Q (Hermitian A).
    """
    k = Q.shape[1]
    if k <= 1 or normA == 0:
        return k
    T = Q.conj().T @ (A @ Q)
    T = (T + T.conj().T) / 2
    horizon = k
    for j in range(1, k):
        # step j-1 produced vector j from T_j (size j) and beta_{j-1} = |T[j, j-1]|
        Tj = T[:j, :j]
        b = abs(T[j, j - 1])
        w, U = np.linalg.eigh(Tj)
        if b * np.abs(U[-1, :]).min() < thresh * normA:
            horizon = j      # vectors 0..j-1 are safe, vector j and later are not judged
            break
    return horizon


def _tridiag(alpha, beta):
    k = len(alpha)
    T = np.diag(np.asarray(alpha, dtype=complex))
    if k > 1:
        T += np.diag(np.asarray(beta[:k - 1], dtype=complex), 1) + np.diag(np.asarray(beta[:k - 1], dtype=complex), -1)
    return T


def check_lanczos(A, v, m, out, cls, K, normA, horizon=None):
    """out = (alpha, beta, V) as returned by lanczos_iteration."""
    fails = []
    alpha, beta, V = out
    alpha = np.asarray(alpha)
    beta = np.asarray(beta)
    V = np.asarray(V)
    n = len(v)
    k = len(alpha)
    # mutually consistent sizes
    if not (1 <= k <= m and len(beta) == k - 1 and V.shape == (n, k)):
        fails.append(('sizes', f'len(alpha)={k} len(beta)={len(beta)} V.shape={V.shape} n={n} m={m}'))
        return fails
    if np.iscomplexobj(alpha) and np.abs(alpha.imag).max(initial=0) > 0 or np.iscomplexobj(beta):
        fails.append(('real_coeffs', 'alpha/beta not real'))
    if not (np.all(np.isfinite(alpha)) and np.all(np.isfinite(beta)) and np.all(np.isfinite(V))):
        fails.append(('finite', 'non-finite output'))
        return fails
    if cls in ('regular', 'regular_full'):
        if k != m:
            fails.append(('length', f'Krylov space has dimension >= {m} but only {k} vectors returned'))
            return fails
        lead = k
    else:
        lead = min(K, k)
        if k < K:
            fails.append(('length', f'Krylov space has dimension {K} but only {k} vectors returned (m={m})'))
    if lead > 1 and not np.all(beta[:lead - 1] > 0):
        fails.append(('beta_positive', f'beta={beta[:lead-1]}'))
    if horizon is not None:
        lead = max(1, min(lead, horizon))
    Vl = V[:, :lead]
    sc = max(normA, 1e-300)
    G = Vl.conj().T @ Vl
    dev = float(np.abs(G - np.identity(lead)).max())
    if dev > TOL:
        fails.append(('orthonormal', f'|V^H V - 1|={dev:.3e} (leading {lead})'))
    P = Vl.conj().T @ (A @ Vl)
    T = _tridiag(alpha[:lead], beta[:max(lead - 1, 0)])
    dev = float(np.abs(P - T).max()) / sc if normA > 0 else float(np.abs(P - T).max())
    if dev > TOL:
        fails.append(('projection', f'|V^H A V - T|/|A|={dev:.3e} (leading {lead})'))
    # first vector is the normalised start vector
    dev = float(np.linalg.norm(V[:, 0] - v / np.linalg.norm(v)))
    if dev > TOL:
        fails.append(('start_vector', f'{dev:.3e}'))
    return fails


def arnoldi_horizon(A, v, Q, kmax=1e5):
    """
    Modified Gram-Schmidt Arnoldi loses orthogonality like eps * kappa([v, A V_j]) (Bjorck, Paige 1992).
    Returns the number of leading Arnoldi vectors for which that condition number stays below kmax,
    computed from the re-orthogonalised reference basis Q.
    """
    k = Q.shape[1]
    v0 = np.asarray(v, dtype=complex) / np.linalg.norm(v)
    ok = 1
    for j in range(1, k):
        B = np.column_stack([v0, A @ Q[:, :j]])
        sv = np.linalg.svd(B, compute_uv=False)
        if sv[-1] <= 0 or sv[0] / sv[-1] > kmax:
            break
        ok = j + 1
    return ok


def check_arnoldi(A, v, m, out, cls, K, normA, horizon=None):
    fails = []
    H, V = out
    H = np.asarray(H)
    V = np.asarray(V)
    n = len(v)
    k = H.shape[0] if H.ndim == 2 else -1
    if not (H.ndim == 2 and H.shape == (k, k) and 1 <= k <= m and V.shape == (n, k)):
        fails.append(('sizes', f'H.shape={H.shape} V.shape={V.shape} n={n} m={m}'))
        return fails
    if not (np.all(np.isfinite(H)) and np.all(np.isfinite(V))):
        fails.append(('finite', 'non-finite output'))
        return fails
    if cls in ('regular', 'regular_full'):
        if k != m:
            fails.append(('length', f'Krylov space has dimension >= {m} but only {k} vectors returned'))
            return fails
        lead = k
    else:
        lead = min(K, k)
        if k < K:
            fails.append(('length', f'Krylov space has dimension {K} but only {k} vectors returned (m={m})'))
    if horizon is not None:
        lead = max(1, min(lead, horizon))
    Vl = V[:, :lead]
    Hl = H[:lead, :lead]
    sc = max(normA, 1e-300)
    G = Vl.conj().T @ Vl
    dev = float(np.abs(G - np.identity(lead)).max())
    if dev > TOL:
        fails.append(('orthonormal', f'|V^H V - 1|={dev:.3e} (leading {lead})'))
    low = np.tril(Hl, -2)
    if np.abs(low).max(initial=0) != 0:
        fails.append(('hessenberg', f'below sub-diagonal max {np.abs(low).max():.3e}'))
    P = Vl.conj().T @ (A @ Vl)
    dev = float(np.abs(P - Hl).max()) / sc if normA > 0 else float(np.abs(P - Hl).max())
    if dev > TOL:
        fails.append(('projection', f'|V^H A V - H|/|A|={dev:.3e} (leading {lead})'))
    if lead > 1:
        sub = np.diag(Hl, -1)
        if not (np.all(np.abs(sub.imag) == 0) and np.all(sub.real > 0)):
            fails.append(('subdiag_positive', f'{sub}'))
    dev = float(np.linalg.norm(V[:, 0] - v / np.linalg.norm(v)))
    if dev > TOL:
        fails.append(('start_vector', f'{dev:.3e}'))
    return fails


def full_space_judgeable(A, v, m, normA):
    n = len(v)
    if m < n or normA <= 0:
        return False
    betas, _, _ = krylov_reference(A, v, n)
    thr = 10 * 100 * n * np.finfo(float).eps
    return len(betas) == n and all(b * normA >= thr for b in betas[:n - 1])


def check_eigh_krylov(A, v, m, numeig, out, cls, K, normA, Q, kret=None, horizon=None):
    """
    A Hermitian. out = (w, u_ritz).  kret = number of Lanczos vectors the implementation produced.
    When the routine ran past the exhaustion point (possible because its breakdown threshold is
    absolute) it continues, after fix F6, on directions orthonormal to the Krylov space: every Ritz value
    is still >= lambda_min (Cauchy interlacing for an orthonormal basis), but the lowest one may come from
    outside the cyclic subspace, so "equals the smallest reachable eigenvalue" is not judged for that call.
    """
    fails = []
    w, U = out
    w = np.asarray(w)
    U = np.asarray(U)
    n = len(v)
    if not (np.all(np.isfinite(w)) and np.all(np.isfinite(U))) or len(w) < 1:
        fails.append(('finite', 'non-finite or empty output'))
        return fails
    evals = np.linalg.eigvalsh((A + A.conj().T) / 2)
    sc = max(normA, 1.0)
    v0 = v / np.linalg.norm(v)
    rq = float((v0.conj() @ (A @ v0)).real)
    th0 = float(np.real(w[0]))
    # Cauchy interlacing on the tridiagonal matrix: exact whatever the orthogonality
    if th0 > rq + 1e-12 * sc:
        fails.append(('ritz_upper', f'theta0={th0!r} > rayleigh={rq!r}'))
    continued = (cls == 'exhausted' and (kret is None or kret > K))
    if cls != 'grey' and th0 < evals[0] - TOL * sc:
        fails.append(('ritz_lower', f'theta0={th0!r} < lambda_min={evals[0]!r}'))
    if cls in ('regular', 'regular_full') and (horizon is None or horizon >= m):
        k = min(len(w), U.shape[1])
        G = U[:, :k].conj().T @ U[:, :k]
        dev = float(np.abs(G - np.identity(k)).max())
        if dev > TOL:
            fails.append(('ritz_orthonormal', f'{dev:.3e}'))
        for i in range(k):
            r = (U[:, i].conj() @ (A @ U[:, i])).real
            if abs(r - w[i]) > TOL * sc:
                fails.append(('ritz_rayleigh', f'i={i} u^H A u={r!r} theta={w[i]!r}'))
                break
    if cls == 'grey' and m >= n and normA > 0:
        # Some reference beta lies between the two class thresholds, so the dimension of the Krylov space is not decided.
        # The routine's own (documented, absolute) breakdown rule is beta < 100 n eps; when every reference beta is at
        # least ten times that, the routine cannot stop early, and with m >= n it produces n orthonormal vectors:
        # A V = V T up to rounding with V unitary, so the lowest Ritz value is the smallest eigenvalue of A.
        if full_space_judgeable(A, v, m, normA):
            betas, _, _ = krylov_reference(A, v, n)
            if abs(th0 - evals[0]) > TOL * sc:
                fails.append(('ritz_exact_full_space', f'theta0={th0!r} lambda_min={evals[0]!r} (n={n}, m={m}, smallest beta {min(betas[:n - 1]) * normA if n > 1 else 0:.3e})'))
    if cls in ('exhausted', 'regular_full') and not continued:
        # smallest eigenvalue reachable from v: smallest eigenvalue of A restricted to the cyclic subspace
        Ar = Q.conj().T @ (A @ Q)
        lam = np.linalg.eigvalsh((Ar + Ar.conj().T) / 2)[0]
        if abs(th0 - lam) > TOL * sc:
            fails.append(('ritz_exact', f'theta0={th0!r} reachable lambda_min={lam!r} (K={K}, m={m})'))
    return fails


def check_expm_krylov(A, v, dt, m, hermitian, out, cls, K, normA):
    fails = []
    r = np.asarray(out)
    n = len(v)
    nv = float(np.linalg.norm(v))
    if r.shape != (n,) or not np.all(np.isfinite(r)):
        fails.append(('finite', f'shape {r.shape} or non-finite'))
        return fails
    if cls == 'grey':
        return fails
    amp = float(np.exp(abs(dt) * normA))
    if hermitian and abs(complex(dt).real) == 0:
        if abs(np.linalg.norm(r) - nv) > TOL * nv:
            fails.append(('expm_norm', f'|result|={np.linalg.norm(r)!r} |v|={nv!r}'))
    if cls in ('exhausted', 'regular_full'):
        want = sla.expm(dt * A) @ v
        dev = float(np.linalg.norm(r - want))
        if dev > TOL * nv * max(1.0, amp):
            fails.append(('expm_exact', f'|result - expm(dt A) v|={dev:.3e} (|v|={nv:.3e}, K={K}, m={m}, hermitian={hermitian})'))
    return fails
