"""
KR world: the Krylov routines driven by a simulated user-supplied linear map (the Afunc callback is
an environment object owned by the simulator: fresh result / returns its argument when the map
leaves it unchanged / one reused output buffer / read-only result).  Owns C14 and C15 together
with the monitors of the TN world.
"""
import math
import numpy as np

from .base import SessionBase
from .prng import Rng, mix, gen_globals
from .seams import load_pytenet
from . import kr_oracle as ko

CB_KINDS = ['fresh', 'CBALIAS', 'CBBUF', 'CBRO', 'CBMEMO']


def gen_session(prop: str, tier: str, seed: int) -> dict:
    rng = Rng(mix(seed, 'kr-gen'))
    nmax = 16 if tier == 'quick' else 24
    n = rng.pick([1, 1, 2, 2, 3, 3, 4, 5, 6, 8, 10, 12, nmax])
    if rng.chance(0.04 if tier == 'quick' else 0.1):
        n = rng.pick([48, 64, 96])      # long recurrences: many more iterations than any window or default
    herm = rng.chance(0.65)
    if herm:
        style = rng.wpick([('random', 4), ('diag', 2), ('blockdiag', 2.5), ('identity', 0.7), ('projector', 1), ('degenerate', 1.5), ('real', 1.5), ('lowrank', 1), ('hopping', 1.2)])
    else:
        style = rng.wpick([('random', 4), ('triangular', 1), ('nilpotent', 1), ('blockdiag', 2), ('real', 1.5), ('identity', 0.4), ('normal', 1)])
    faultfree = rng.chance(0.25)
    enabled = [] if faultfree else [k for k in ('EIGSIGN', 'ULP') if rng.chance(0.7)] + [k for k in ('CBALIAS', 'CBBUF', 'CBRO', 'CBMEMO') if rng.chance(0.7)] + (['GLOBALS'] if rng.chance(0.5) else [])
    cfg = {'world': 'kr', 'profile': prop, 'tier': tier, 'n': n, 'herm': herm, 'style': style, 'msub': rng.sub(),
           'norm': rng.pick([0.5, 1.0, 1.0, 2.0, 3.0, 4.0]), 'enabled': enabled, 'faultfree': faultfree,
           'blocks': rng.randrange(1, max(2, n)) if n > 1 else 1}
    if rng.chance(0.05):
        cfg['pyopt'] = True       # run this session under `python -O`
    ops = []
    for _ in range(rng.randrange(3, 11)):
        if herm:
            kind = rng.wpick([('lanczos', 3), ('eigh', 3), ('expm', 3), ('arnoldi', 1)] if prop == 'C14' or rng.chance(0.4)
                             else [('lanczos', 1), ('eigh', 3), ('expm', 4), ('arnoldi', 0.5)])
        else:
            kind = rng.wpick([('arnoldi', 3), ('expm', 3)] if prop == 'C14' else [('arnoldi', 1), ('expm', 4)])
        m = rng.randrange(1, n + 4)
        if prop == 'C14' and rng.chance(0.6):
            m = rng.randrange(1, n + 1)
        if ops and rng.chance(0.3):
            # same routine, same shape as the previous call (a caller iterating with fixed sizes)
            kind, m = ops[-1]['op'], ops[-1]['m']
        mag = rng.uniform(0.05, 4.0)
        kd = rng.pick(['imag', 'imag', 'real', 'complex'])
        if style == 'hopping' and rng.chance(0.5):
            kd = 'resonant'
        if kd == 'resonant':
            # |dt| * beta_0 an exact multiple of pi: error estimates based on a single matrix element vanish there
            dt = [0.0, rng.pick([-1, 1]) * math.pi * rng.pick([1, 1, 2, 0.5])]
        elif kd == 'imag':
            dt = [0.0, rng.pick([-1, 1]) * mag]
        elif kd == 'real':
            dt = [rng.pick([-1, 1]) * mag, 0.0]
        else:
            ph = rng.uniform(0, 2 * math.pi)
            dt = [mag * math.cos(ph), mag * math.sin(ph)]
        cb = 'fresh'
        if not faultfree and rng.chance(0.6):
            cands = [k for k in ('CBALIAS', 'CBBUF', 'CBRO', 'CBMEMO') if k in enabled]
            if cands:
                cb = rng.pick(cands)
        op = {'op': kind, 'm': m, 'dt': dt, 'cb': cb, 'vsub': rng.sub(),
              'vstyle': rng.wpick([('generic', 5), ('real', 1.5), ('confined', 3), ('eigvec', 1.6), ('unit', 1 if style != 'hopping' else 8)]),
              'confine': rng.randrange(1, n + 1), 'hermitian_flag': bool(herm and rng.chance(0.75)), 'numeig': rng.randrange(1, 4),
              'eig_admix': rng.pick([None, None, 1e-9, 1e-10, 5e-11, 2e-11, 1e-11, 1e-7]),
              'persist': rng.chance(0.3), 'step': rng.pick(['v_inplace', 'v_inplace', 'A_inplace', 'none']),
              'vscale': rng.pick([1.0, 1.0, 0.25, 8.0, 1e-3, 1e3, 1e-14, 1e-120, 1e120]), 'vdtype': rng.pick(['complex', 'complex', 'float', 'float', 'int'])}
        env_kinds = [k for k in ('EIGSIGN', 'ULP') if k in enabled and rng.chance(0.5)]
        op['env'] = {'gauge': rng.sub(), 'kinds': env_kinds}
        if 'GLOBALS' in enabled and rng.chance(0.35):
            op['env']['globals'] = gen_globals(rng)
        ops.append(op)
    return {'world': 'kr', 'prop': prop, 'tier': tier, 'seed': seed, 'config': cfg, 'ops': ops}


def dyadic(x, bits=4):
    return np.round(x * 2 ** bits) / 2 ** bits


def make_matrix(cfg):
    n, style, herm = cfg['n'], cfg['style'], cfg['herm']
    g = np.random.Generator(np.random.PCG64(cfg['msub']))

    def rnd(shape, real=False):
        return g.normal(size=shape) if real else g.normal(size=shape) + 1j * g.normal(size=shape)
    if style == 'identity':
        A = np.identity(n, dtype=complex)
    elif style == 'projector':
        k = max(1, n // 2)
        A = np.diag([1.0] * k + [0.0] * (n - k)).astype(complex)
    elif style == 'diag':
        A = np.diag(dyadic(g.uniform(-2, 2, size=n), 3)).astype(complex)
    elif style == 'degenerate':
        vals = dyadic(g.uniform(-2, 2, size=max(1, n // 2)), 2)
        A = np.diag(g.choice(vals, size=n)).astype(complex)
    elif style == 'blockdiag':
        A = np.zeros((n, n), dtype=complex)
        p = 0
        nb = max(1, cfg.get('blocks', 1))
        sizes = []
        rem = n
        for b in range(nb):
            s = max(1, rem // (nb - b))
            sizes.append(s)
            rem -= s
        for s in sizes:
            B = dyadic(rnd((s, s)), 3)
            if herm:
                B = dyadic((B + B.conj().T) / 2, 4)
            A[p:p + s, p:p + s] = B
            p += s
    elif style == 'hopping':
        # tight-binding chain: constant (zero) diagonal, unit hopping - Lanczos from an end site gives alpha = 0, beta = 1
        A = (np.diag(np.ones(n - 1), 1) + np.diag(np.ones(n - 1), -1)).astype(complex) if n > 1 else np.zeros((1, 1), dtype=complex)
    elif style == 'triangular':
        A = np.triu(rnd((n, n)))
    elif style == 'nilpotent':
        A = np.diag(np.ones(n - 1), 1).astype(complex) if n > 1 else np.zeros((1, 1), dtype=complex)
    elif style == 'lowrank':
        k = max(1, n // 3)
        X = rnd((n, k))
        A = X @ X.conj().T
    elif style == 'normal':
        Q, _ = np.linalg.qr(rnd((n, n)))
        A = Q @ np.diag(rnd(n)) @ Q.conj().T
    else:
        A = rnd((n, n), real=(style == 'real'))
        A = A.astype(complex)
    if herm:
        A = (A + A.conj().T) / 2
    if style not in ('identity', 'projector', 'diag', 'degenerate', 'blockdiag', 'nilpotent', 'hopping'):
        nrm = np.linalg.norm(A, 2)
        if nrm > 0:
            A = A * (cfg['norm'] / nrm)
    return A


class Callback:
    """Simulated user callback with a declared behaviour."""

    def __init__(self, A, kind):
        self.A = A
        self.kind = kind
        self.calls = 0
        self.aliased = 0
        self.buf = np.zeros(A.shape[0], dtype=complex)
        self.store = []
        self.store_bytes = []

    def __call__(self, x):
        self.calls += 1
        x = np.asarray(x)
        if self.kind == 'CBBUF':
            np.matmul(self.A, x, out=self.buf)
            return self.buf
        y = self.A @ x
        if self.kind == 'CBALIAS' and np.array_equal(y, x):
            self.aliased += 1
            return x
        if self.kind == 'CBMEMO':
            # a memoising callback: hands out arrays it keeps (and owns)
            self.store.append(y)
            self.store_bytes.append(y.tobytes())
            return y
        if self.kind == 'CBRO':
            y.flags.writeable = False
        return y


class KRSession(SessionBase):
    world = 'kr'

    def __init__(self, session):
        super().__init__(session)
        self.ptn = load_pytenet()
        self.A = make_matrix(self.cfg)
        self.n = self.cfg['n']
        self.normA = float(np.linalg.norm(self.A, 2))
        self.ctx = {}

    def viol(self, props, clause, detail, op_index=None, opkind=None):
        rec = super().viol(props, clause, detail, op_index, opkind)
        rec['ctx'] = dict(self.ctx)
        return rec

    def abstract_state(self):
        return (self.n, self.cfg['style'], self.cfg['herm'])

    def start_vector(self, op):
        g = np.random.Generator(np.random.PCG64(op['vsub']))
        n = self.n
        st = op['vstyle']
        if st in ('real', 'unit') or (st == 'generic' and op.get('vdtype') in ('float', 'int') and int(op['vsub']) % 2 == 0):
            v = g.normal(size=n).astype(complex) if st != 'unit' else None
            if v is None:
                v = np.zeros(n, dtype=complex)
                k_ = int(op['confine']) % n
                if self.cfg['style'] == 'hopping' and int(op['vsub']) % 3 != 0:
                    k_ = 0 if int(op['vsub']) % 2 == 0 else n - 1     # an end site of the chain
                v[k_] = 1.0
        elif st == 'confined':
            v = np.zeros(n, dtype=complex)
            k = min(n, max(1, int(op['confine'])))
            v[:k] = g.normal(size=k) + 1j * g.normal(size=k)
        elif st == 'eigvec' and self.cfg['herm']:
            w, U = np.linalg.eigh(self.A)
            k = min(n, max(1, int(op['confine']) % 3 + 1))
            idx = g.choice(n, size=k, replace=False)
            v = U[:, idx] @ (g.normal(size=k) + 1j * g.normal(size=k))
            if op.get('eig_admix'):
                # an eigenvector (combination) with a generic admixture far above rounding but far below any "converged" threshold
                e = g.normal(size=n) + 1j * g.normal(size=n)
                v = v / np.linalg.norm(v) + float(op['eig_admix']) * e / np.linalg.norm(e)
                self.probe('start_vector_eigvec_with_tiny_admixture')
        else:
            v = g.normal(size=n) + 1j * g.normal(size=n)
        if np.linalg.norm(v) == 0:
            v[0] = 1.0
        v = v * op.get('vscale', 1.0)
        dk = op.get('vdtype', 'complex')
        if dk == 'float' and not np.any(v.imag):
            v = v.real.copy()                      # a real start vector handed over with a real dtype
            self.probe('start_vector_real_dtype')
        elif dk == 'int' and not np.any(v.imag):
            vi = np.round(v.real * 4)
            if np.any(vi):
                v = vi.astype(np.int64)
                self.probe('start_vector_int_dtype')
        return v

    def call(self, op, fn):
        self.env.begin_op(op.get('env', {}))
        exc = None
        res = None
        try:
            res = fn()
        except Exception as e:   # noqa
            exc = e
        finally:
            self.env.end_op()
        cb_ = getattr(self, 'cur_cb', None)
        if cb_ is not None and cb_.store:
            same_ = all(a.tobytes() == b for a, b in zip(cb_.store, cb_.store_bytes))
            self.check(same_, ['C19', 'C14' if op['op'] in ('lanczos', 'arnoldi') else 'C15'], 'callback_owned_array_modified',
                       'an array kept (and owned) by the user callback was modified by the Krylov routine')
        # history: what an earlier call returned stays what it was (results kept by the caller)
        prev = getattr(self, '_kept', None)
        if prev is not None:
            arrays, snaps, pprop, pwhat = prev
            same = all(a.tobytes() == b for a, b in zip(arrays, snaps))
            self.check(same, pprop, 'earlier_result_overwritten', f'arrays returned by the previous {pwhat} call were modified by a later Krylov call')
        self._kept = None
        if exc is None and res is not None:
            arrs = [np.asarray(x) for x in (res if isinstance(res, tuple) else (res,)) if isinstance(x, np.ndarray)]
            prop = 'C14' if op['op'] in ('lanczos', 'arnoldi') else 'C15'
            self._kept = (arrs, [a.tobytes() for a in arrs], prop, op['op'])
        return res, exc

    def prep(self, op):
        v = self.start_vector(op)
        m = int(op['m'])
        cbk = op['cb'] if op['cb'] in self.env.enabled or op['cb'] == 'fresh' else 'fresh'
        cb = Callback(self.A, cbk)
        if op.get('persist'):
            # history: a caller iterating with ONE callback object and ONE vector array that it updates in place
            # (time stepping loop  v[:] = expm_krylov(f, v, ...),  or an operator array scaled in place behind the closure)
            st = getattr(self, 'persist', None)
            if st is None:
                st = self.persist = {'cb': Callback(self.A, 'fresh'), 'v': np.array(v, dtype=complex)}
            else:
                how = op.get('step', 'v_inplace')
                if how == 'v_inplace':
                    last = getattr(self, 'last_vec_result', None)
                    st['v'][:] = last if (last is not None and last.shape == st['v'].shape and np.all(np.isfinite(last)) and np.linalg.norm(last) > 0) else v
                elif how == 'A_inplace' and self.cfg['style'] in ('random', 'real', 'normal', 'lowrank', 'triangular'):
                    self.A *= [2.0, 0.5][int(op['vsub']) % 2]
                    self.normA = float(np.linalg.norm(self.A, 2))
            cb = st['cb']
            v = st['v']
            cbk = 'fresh'
            self.probe('persistent_callback_and_vector')
        self.ctx = {'callback': cbk}
        if cbk != 'fresh':
            self.env.fire(cbk)
        self.cur_cb = cb
        cls, K, normA, Q = ko.classify(self.A, v, m)
        self.probe('krylov_' + cls)
        if cls == 'exhausted':
            self.probe('lanczos_breakdown')
        if m > self.n:
            self.probe('lanczos_m_gt_n')
        if m == 1:
            self.probe('krylov_m_eq_1')
        return v, m, cb, cls, K, normA, Q

    def in_class(self):
        # the routines' breakdown threshold is absolute: stay where it means what it is meant to mean
        return self.normA == 0 or 0.25 <= self.normA <= 8.0

    def report(self, prop, fails, what, cls, m):
        self.judged[(prop, what)] += 1
        for clause, detail in fails:
            self.viol(prop, f'{what}_{clause}' if not clause.startswith(what) else clause, f'n={self.n} m={m} class={cls} style={self.cfg["style"]} cb={self.ctx.get("callback")}: {detail}')

    def op_lanczos(self, op):
        if not self.cfg['herm'] or not self.in_class():
            return 'skipped'
        v, m, cb, cls, K, normA, Q = self.prep(op)
        vb = v.copy()
        out, exc = self.call(op, lambda: self.ptn.lanczos_iteration(cb, v, m))
        if exc is not None:
            self.check(False, 'C14', 'raised', f'lanczos_iteration: {type(exc).__name__}: {exc} (n={self.n}, m={m}, class={cls}, cb={cb.kind})')
            return 'raised'
        self.judged[('C14', 'raised')] += 1
        if cb.aliased:
            self.probe('callback_returned_its_argument')
        if cls == 'grey':
            self.skip('krylov_grey_zone')
            return 'grey'
        if ko.orth_horizon(self.A, Q, normA) < min(m, Q.shape[1]):
            self.probe('lanczos_ritz_converged_before_end')
        self.report('C14', ko.check_lanczos(self.A, vb, m, out, cls, K, normA), 'lanczos', cls, m)
        return 'ok'

    def op_arnoldi(self, op):
        if not self.in_class():
            return 'skipped'
        v, m, cb, cls, K, normA, Q = self.prep(op)
        vb = v.copy()
        out, exc = self.call(op, lambda: self.ptn.arnoldi_iteration(cb, v, m))
        if exc is not None:
            self.check(False, 'C14', 'raised', f'arnoldi_iteration: {type(exc).__name__}: {exc} (n={self.n}, m={m}, class={cls}, cb={cb.kind})')
            return 'raised'
        self.judged[('C14', 'raised')] += 1
        if cls == 'grey':
            self.skip('krylov_grey_zone')
            return 'grey'
        hz = ko.arnoldi_horizon(self.A, vb, Q)
        if hz < min(m, Q.shape[1]):
            self.probe('arnoldi_ill_conditioned_basis_guard')
        self.report('C14', ko.check_arnoldi(self.A, vb, m, out, cls, K, normA, horizon=hz), 'arnoldi', cls, m)
        return 'ok'

    def op_eigh(self, op):
        if not self.cfg['herm'] or not self.in_class():
            return 'skipped'
        v, m, cb, cls, K, normA, Q = self.prep(op)
        vb = v.copy()
        numeig = int(op.get('numeig', 1))
        kret = {}
        real_l = self.ptn.krylov.lanczos_iteration

        def spy(real, args, kwargs):
            r = real(*args, **kwargs)
            kret['k'] = len(r[0])
            return r
        self.env.monitors['lanczos_iteration'] = spy
        try:
            out, exc = self.call(op, lambda: self.ptn.eigh_krylov(cb, v, m, numeig))
        finally:
            self.env.monitors.pop('lanczos_iteration', None)
        if exc is not None:
            self.check(False, 'C15', 'raised', f'eigh_krylov: {type(exc).__name__}: {exc} (n={self.n}, m={m}, class={cls}, cb={cb.kind})')
            return 'raised'
        self.judged[('C15', 'raised')] += 1
        if cls == 'grey':
            if ko.full_space_judgeable(self.A, vb, m, normA):
                # undecided Krylov dimension, but the routine cannot legitimately stop before n vectors (kr_oracle)
                self.report('C15', ko.check_eigh_krylov(self.A, vb, m, numeig, out, cls, K, normA, Q, kret=kret.get('k')), 'eigh_krylov_full_space', cls, m)
                return 'ok'
            self.skip('krylov_grey_zone')
            return 'grey'
        self.report('C15', ko.check_eigh_krylov(self.A, vb, m, numeig, out, cls, K, normA, Q, kret=kret.get('k')), 'eigh_krylov', cls, m)
        return 'ok'

    def op_expm(self, op):
        if not self.in_class():
            return 'skipped'
        v, m, cb, cls, K, normA, Q = self.prep(op)
        vb = v.copy()
        dt = complex(op['dt'][0], op['dt'][1])
        lim = 13.0 if self.cfg['style'] == 'hopping' else 4.0
        if abs(dt) * max(normA, 1e-300) > lim:
            dt = dt * lim / (abs(dt) * normA)
        hflag = bool(op.get('hermitian_flag')) and self.cfg['herm']
        out, exc = self.call(op, lambda: self.ptn.expm_krylov(cb, v, dt, m, hermitian=hflag))
        if exc is not None:
            self.check(False, 'C15', 'raised', f'expm_krylov: {type(exc).__name__}: {exc} (n={self.n}, m={m}, class={cls}, cb={cb.kind}, hermitian={hflag})')
            return 'raised'
        self.judged[('C15', 'raised')] += 1
        if cls == 'grey':
            self.skip('krylov_grey_zone')
            return 'grey'
        self.report('C15', ko.check_expm_krylov(self.A, vb, dt, m, hflag, out, cls, K, normA), 'expm_krylov', cls, m)
        r_ = np.asarray(out)
        self.last_vec_result = r_ / np.linalg.norm(r_) if r_.shape == (self.n,) and np.all(np.isfinite(r_)) and np.linalg.norm(r_) > 0 else None
        return 'ok'
