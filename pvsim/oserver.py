"""
Session server running under `python -O` (assert statements compiled away, __debug__ False): a caller may
run the library that way, and the properties are not stated "provided assertions are enabled".  One server
per worker process; sessions whose config says pyopt are shipped to it as JSON lines (run1.execute).
"""
import json
import sys
import traceback


def main():
    from .run1 import execute_here
    out = sys.stdout
    sys.stdout = sys.stderr      # nothing but result lines on the pipe
    for line in sys.stdin:
        line = line.strip()
        if not line:
            continue
        try:
            sess = json.loads(line)
            r = execute_here(sess)
            r['python_optimize'] = sys.flags.optimize
        except Exception:
            r = {'harness_error': traceback.format_exc()[-1500:]}
        out.write(json.dumps(r, default=str) + '\n')
        out.flush()


if __name__ == '__main__':
    main()
