"""One integer decides everything: splitmix64 based seed derivation (no use of Python's hash())."""
import random

MASK = (1 << 64) - 1


def splitmix64(x: int) -> int:
    x = (x + 0x9E3779B97F4A7C15) & MASK
    z = x
    z = ((z ^ (z >> 30)) * 0xBF58476D1CE4E5B9) & MASK
    z = ((z ^ (z >> 27)) * 0x94D049BB133111EB) & MASK
    return z ^ (z >> 31)


def mix(*parts) -> int:
    """Combine integers / strings into one 64 bit seed, deterministically."""
    h = 0x243F6A8885A308D3
    for p in parts:
        if isinstance(p, str):
            for b in p.encode('utf-8'):
                h = splitmix64(h ^ b)
            h = splitmix64(h ^ 0xFF51)
        else:
            h = splitmix64(h ^ (int(p) & MASK))
            h = splitmix64(h ^ ((int(p) >> 64) & MASK))
    return h


class Rng(random.Random):
    """random.Random seeded with an int (Mersenne twister: stable across runs and platforms)."""

    def __init__(self, seed: int):
        super().__init__(int(seed) & MASK)

    def sub(self) -> int:
        """Draw a 62 bit sub-seed."""
        return self.getrandbits(62)

    def chance(self, p: float) -> bool:
        return self.random() < p

    def pick(self, seq):
        return seq[self.randrange(len(seq))]

    def wpick(self, table):
        """table: list of (item, weight)."""
        tot = sum(w for _, w in table)
        x = self.random() * tot
        acc = 0.0
        for it, w in table:
            acc += w
            if x < acc:
                return it
        return table[-1][0]


def gen_globals(rng, allow_exceptions=False):
    """Process-global interpreter / numpy state under which one operation is called (fault kind GLOBALS)."""
    g = {'errstate': None, 'printopts': None, 'warnfilter': None, 'rngstate': None}
    which = rng.wpick([('printopts', 3), ('errstate', 3), ('warnfilter', 2), ('rngstate', 1), ('all', 1)])
    if which in ('printopts', 'all'):
        g['printopts'] = rng.randrange(0, 4)
    if which in ('errstate', 'all'):
        g['errstate'] = rng.pick(['ignore', 'ignore', 'warn', 'raise'] if allow_exceptions else ['ignore', 'ignore', 'warn'])
    if which in ('warnfilter', 'all'):
        g['warnfilter'] = rng.pick(['error', 'error', 'ignore'] if allow_exceptions else ['ignore'])
    if which in ('rngstate', 'all'):
        g['rngstate'] = rng.randrange(0, 2 ** 31)
    return g
