"""Run single sessions (debug helper and worker entry)."""
import json, sys, traceback
from .tn_gen import gen_session as gen_tn
from .tn_dyn import TNSession


def make_session(world, prop, tier, seed):
    if world == 'tn':
        return gen_tn(prop, tier, seed)
    if world == 'gr':
        from .gr_gen import gen_session as gen_gr
        return gen_gr(prop, tier, seed)
    if world == 'kr':
        from .kr_world import gen_session as gen_kr
        return gen_kr(prop, tier, seed)
    raise ValueError(world)


_OSRV = {}


class SessionHang(Exception):
    pass


def _oserver():
    import os, subprocess
    pid = os.getpid()
    srv = _OSRV.get(pid)
    if srv is None or srv.poll() is not None:
        here = os.path.dirname(os.path.dirname(os.path.abspath(__file__)))
        srv = subprocess.Popen([sys.executable, '-O', '-m', 'pvsim.oserver'], cwd=here, stdin=subprocess.PIPE, stdout=subprocess.PIPE,
                               text=True, bufsize=1)
        _OSRV.clear()
        _OSRV[pid] = srv
    return srv


def execute(session):
    """Sessions flagged pyopt run in a `python -O` interpreter (one persistent server per process)."""
    if session.get('config', {}).get('pyopt') and sys.flags.optimize == 0:
        from .base import HarnessError
        srv = _oserver()
        srv.stdin.write(json.dumps(session) + '\n')
        srv.stdin.flush()
        import select
        ready, _, _ = select.select([srv.stdout], [], [], 300.0)
        if not ready:
            # the session does not terminate under -O (e.g. a loop whose exit depended on an assertion): not a verdict
            srv.kill()
            _OSRV.clear()
            raise SessionHang('session did not terminate within 300 s under python -O')
        line = srv.stdout.readline()
        if not line:
            _OSRV.clear()
            raise HarnessError('python -O session server died')
        r = json.loads(line)
        if 'harness_error' in r:
            raise HarnessError('in python -O server: ' + r['harness_error'])
        if r.get('python_optimize', 0) < 1:
            raise HarnessError('session server is not running under -O')
        r.setdefault('probes', {})['session_under_python_O'] = 1
        return r
    return execute_here(session)


def execute_here(session):
    w = session['world']
    if w == 'tn':
        return TNSession(session).run()
    if w == 'gr':
        from .gr_world import GRSession
        return GRSession(session).run()
    if w == 'kr':
        from .kr_world import KRSession
        return KRSession(session).run()
    raise ValueError(w)


if __name__ == '__main__':
    world, prop, tier, s0, s1 = sys.argv[1], sys.argv[2], sys.argv[3], int(sys.argv[4]), int(sys.argv[5])
    from collections import Counter
    tot = Counter()
    for seed in range(s0, s1):
        sess = make_session(world, prop, tier, seed)
        sess['stop_on'] = 'none'
        try:
            r = execute(sess)
        except Exception:
            print('HARNESS-ERROR seed', seed)
            traceback.print_exc()
            continue
        for v in r['violations']:
            tot[(tuple(v['props']), v['clause'], v['op'])] += 1
            if tot[(tuple(v['props']), v['clause'], v['op'])] <= 2:
                print('seed', seed, v)
    for k, n in sorted(tot.items(), key=lambda x: -x[1]):
        print(n, k)
