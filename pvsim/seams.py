"""
Environment seams: everything pytenet obtains from "outside" (LAPACK gauge choices, sort order of
ties, last-bit rounding, OS entropy, backend failures) is routed through proxies owned by the
simulator.  No change to /repo is needed: pytenet modules resolve these collaborators through
module attributes which are rebound for the duration of a session (DESIGN.md 4.3).
"""
import hashlib
import os
import sys
import numpy as np
import scipy.linalg as _sla

from .prng import Rng, mix

_REAL_NP = np
_PYTENET = None


def pytenet_src() -> str:
    return os.environ.get('PYTENET_SRC', '/repo')


def load_pytenet():
    """Import pytenet from /repo's working tree (or PYTENET_SRC)."""
    global _PYTENET
    if _PYTENET is None:
        src = pytenet_src()
        if src not in sys.path:
            sys.path.insert(0, src)
        import pytenet  # noqa
        import pytenet.bond_ops, pytenet.mps, pytenet.mpo, pytenet.util, pytenet.krylov  # noqa
        import pytenet.evolution, pytenet.minimization, pytenet.operation, pytenet.opgraph  # noqa
        _PYTENET = pytenet
        assert os.path.realpath(pytenet.__file__).startswith(os.path.realpath(src)), \
            f'pytenet imported from {pytenet.__file__}, expected under {src}'
    return _PYTENET


FAULT_KINDS = ['QRSIGN', 'SVDPHASE', 'SVDROT', 'TIEORDER', 'EIGSIGN', 'ULP', 'RNGENV', 'LAYOUT', 'WPROT', 'RAISE',
               'CBALIAS', 'CBBUF', 'CBRO', 'CBMEMO', 'CBCALLS', 'GLOBALS']

# process-global interpreter / numpy state a caller may legitimately have set before calling the library (fault kind GLOBALS)
PRINTOPTS = [dict(threshold=3, edgeitems=1), dict(threshold=6, edgeitems=2, precision=2), dict(threshold=10, edgeitems=3, linewidth=40),
             dict(threshold=0, edgeitems=1, precision=1, suppress=True)]
ERRSTATES = {'ignore': dict(all='ignore'), 'warn': dict(all='warn'), 'raise': dict(divide='raise', invalid='raise', over='raise', under='ignore')}


def environmental_exception(exc, op_env) -> bool:
    """An exception that the caller's own global settings asked for (warnings as errors, numpy error state 'raise')."""
    g = (op_env or {}).get('globals') or {}
    if g.get('warnfilter') == 'error' and isinstance(exc, Warning):
        return True
    if g.get('errstate') == 'raise' and isinstance(exc, FloatingPointError):
        return True
    return False


class InjectedBackendFailure(Exception):
    """Marker mixin so that the executor can tell an injected failure from a genuine one."""


class InjectedLinAlgError(np.linalg.LinAlgError, InjectedBackendFailure):
    pass


class InjectedMemoryError(MemoryError, InjectedBackendFailure):
    pass


def _ulp_factors(gen, shape):
    # the three representable neighbours of 1: 1-2^-53, 1, 1+2^-52
    c = gen.integers(0, 3, size=shape)
    return np.where(c == 0, 1.0 - 2.0**-53, np.where(c == 1, 1.0, 1.0 + 2.0**-52))


class Env:
    """
    Per-session environment.  `begin_op` arms the seams with the op's own sub-seed and the fault
    kinds enabled for it; every seam call draws from that stream only, so a sub-list of an op list
    replays the surviving ops with unchanged randomness.
    """

    def __init__(self, session_seed: int, enabled=None):
        self.session_seed = session_seed
        self.enabled = set(enabled or [])
        self.fired = {}       # kind -> number of seam calls in which the kind changed something
        self.calls = {}       # seam name -> number of calls
        self.h = hashlib.sha256()
        self.monitors = {}    # name -> callable
        self.active_kinds = set()
        self.rng = None
        self.gen = None
        self.raise_at = None
        self.lapack_calls = 0
        self.raised = None
        self.rngenv_gen = None
        self.in_monitor = 0
        self.opfired = set()

    # ---- logging (never draws, never reads a clock) ------------------------------------------
    def log(self, *items):
        for it in items:
            if isinstance(it, np.ndarray):
                self.h.update(str(it.dtype).encode())
                self.h.update(str(it.shape).encode())
                self.h.update(np.ascontiguousarray(it).tobytes())
            elif isinstance(it, (bytes, bytearray)):
                self.h.update(bytes(it))
            else:
                self.h.update(repr(it).encode())
            self.h.update(b'|')

    def digest(self) -> str:
        return self.h.hexdigest()

    def fire(self, kind):
        self.fired[kind] = self.fired.get(kind, 0) + 1
        self.opfired.add(kind)

    def count(self, seam):
        self.calls[seam] = self.calls.get(seam, 0) + 1

    # ---- per-op arming -----------------------------------------------------------------------
    def begin_op(self, op_env: dict):
        seed = int(op_env.get('gauge', 0))
        self.rng = Rng(mix(seed, 'choices'))
        self.gen = np.random.Generator(np.random.PCG64(mix(seed, 'arrays')))
        self.rngenv_gen = np.random.Generator(np.random.PCG64(mix(seed, 'rngenv')))
        self.active_kinds = set(k for k in op_env.get('kinds', []) if k in self.enabled)
        ra = op_env.get('raise_at')
        self.raise_at = ra if (ra is not None and 'RAISE' in self.enabled) else None
        self.raise_on = op_env.get('raise_on', 'any')
        self.lapack_calls = 0
        self.raised = None
        self.opfired = set()
        self._saved_globals = None
        g = op_env.get('globals') if 'GLOBALS' in self.enabled else None
        if g:
            import warnings, random
            self._saved_globals = (_REAL_NP.geterr(), _REAL_NP.get_printoptions(), warnings.filters[:], _REAL_NP.random.get_state(), random.getstate())
            if g.get('errstate'):
                _REAL_NP.seterr(**ERRSTATES[g['errstate']])
            if g.get('printopts') is not None:
                _REAL_NP.set_printoptions(**PRINTOPTS[int(g['printopts']) % len(PRINTOPTS)])
            if g.get('warnfilter') == 'error':
                # warnings attributed to library code become exceptions (a subset of what `python -W error` does)
                warnings.filterwarnings('error', module=r'pytenet(\..*)?$')
            elif g.get('warnfilter') == 'ignore':
                warnings.simplefilter('ignore')
            if g.get('rngstate') is not None:
                _REAL_NP.random.seed(int(g['rngstate']) % (2 ** 32))
                random.seed(int(g['rngstate']))
            self.fire('GLOBALS')
            self.log('GLOBALS', sorted((k, v) for k, v in g.items() if v is not None))

    def end_op(self):
        self.active_kinds = set()
        self.raise_at = None
        sg = getattr(self, '_saved_globals', None)
        if sg is not None:
            import warnings, random
            _REAL_NP.seterr(**sg[0])
            _REAL_NP.set_printoptions(**sg[1])
            warnings.filters[:] = sg[2]
            if hasattr(warnings, '_filters_mutated'):
                warnings._filters_mutated()
            _REAL_NP.random.set_state(sg[3])
            random.setstate(sg[4])
            self._saved_globals = None

    def want(self, kind) -> bool:
        if self.in_monitor or kind not in self.active_kinds:
            return False
        return self.rng.random() < 0.6

    def maybe_raise(self, which):
        if self.in_monitor or self.raise_at is None:
            return
        if getattr(self, 'raise_on', 'any') == 'svd' and which != 'svd':
            return
        k = self.lapack_calls
        self.lapack_calls += 1
        if k == self.raise_at:
            self.fire('RAISE')
            self.log('RAISE', which, k)
            if which == 'svd':
                self.raised = InjectedLinAlgError('SVD did not converge')
            else:
                self.raised = InjectedMemoryError('Unable to allocate workspace (injected)')
            self.raise_at = None
            raise self.raised


class _LinalgProxy:
    def __init__(self, env: Env):
        self.__dict__.update(vars(_REAL_NP.linalg))
        for k in ('qr', 'svd'):
            self.__dict__.pop(k, None)   # class methods below must win over the copied names
        self._env = env

    def qr(self, a, mode='reduced', *args, **kwargs):
        env = self._env
        env.count('np.linalg.qr')
        env.maybe_raise('qr')
        res = _REAL_NP.linalg.qr(a, mode, *args, **kwargs)
        if mode != 'reduced' or env.in_monitor:
            return res
        Q, R = res
        Q = np.array(Q)
        R = np.array(R)
        k = Q.shape[1]
        if k > 0 and env.want('QRSIGN'):
            flip = env.gen.integers(0, 2, size=k).astype(bool)
            if not flip.any():
                flip[int(env.gen.integers(0, k))] = True
            sgn = np.where(flip, -1.0, 1.0)
            Q = Q * sgn[None, :]
            R = R * sgn[:, None]
            env.fire('QRSIGN')
            env.log('QRSIGN', flip)
        if env.want('ULP'):
            Q = Q * _ulp_factors(env.gen, Q.shape)
            R = R * _ulp_factors(env.gen, R.shape)
            env.fire('ULP')
            env.log('ULPqr')
        return Q, R

    def svd(self, a, full_matrices=True, compute_uv=True, *args, **kwargs):
        env = self._env
        env.count('np.linalg.svd')
        env.maybe_raise('svd')
        res = _REAL_NP.linalg.svd(a, full_matrices, compute_uv, *args, **kwargs)
        if full_matrices or not compute_uv or env.in_monitor:
            return res
        u, s, vh = (np.array(x) for x in res)
        k = len(s)
        iscomplex = np.iscomplexobj(u)
        if k > 0 and env.want('SVDROT'):
            smax = s[0] if k else 0.0
            # clusters of numerically identical singular values
            i = 0
            rotated = False
            while i < k:
                j = i + 1
                while j < k and abs(s[j] - s[i]) <= 8 * np.finfo(float).eps * max(smax, np.finfo(float).tiny):
                    j += 1
                if j - i >= 2:
                    m = j - i
                    if iscomplex:
                        W = env.gen.normal(size=(m, m)) + 1j * env.gen.normal(size=(m, m))
                    else:
                        W = env.gen.normal(size=(m, m))
                    W, _ = _REAL_NP.linalg.qr(W)
                    u[:, i:j] = u[:, i:j] @ W
                    vh[i:j, :] = W.conj().T @ vh[i:j, :]
                    rotated = True
                i = j
            if rotated:
                env.fire('SVDROT')
                env.log('SVDROT')
        if k > 0 and env.want('SVDPHASE'):
            if iscomplex:
                ph = np.exp(2j * np.pi * env.gen.random(size=k))
            else:
                ph = np.where(env.gen.integers(0, 2, size=k) == 1, -1.0, 1.0)
                if (ph == 1).all():
                    ph[int(env.gen.integers(0, k))] = -1.0
            u = u * ph[None, :]
            vh = vh * ph.conj()[:, None]
            env.fire('SVDPHASE')
            env.log('SVDPHASE', ph)
        if env.want('ULP'):
            u = u * _ulp_factors(env.gen, u.shape)
            vh = vh * _ulp_factors(env.gen, vh.shape)
            env.fire('ULP')
            env.log('ULPsvd')
        return u, s, vh


class _RandomProxy:
    def __init__(self, env: Env):
        self.__dict__.update(vars(_REAL_NP.random))
        self.__dict__.pop('default_rng', None)
        self._env = env

    def default_rng(self, seed=None):
        env = self._env
        if seed is None:
            env.count('np.random.default_rng')
            if 'RNGENV' in env.enabled and env.rngenv_gen is not None:
                env.fire('RNGENV')
                return env.rngenv_gen
            # no entropy from the OS inside a simulated session, ever
            return _REAL_NP.random.Generator(_REAL_NP.random.PCG64(mix(env.session_seed, 'rngenv-default')))
        return _REAL_NP.random.default_rng(seed)


class NumpyProxy:
    """Looks like the numpy module; only linalg.qr, linalg.svd, argsort, random.default_rng differ."""

    def __init__(self, env: Env):
        self.__dict__.update(vars(_REAL_NP))
        self.__dict__.pop('argsort', None)
        self._env = env
        self.linalg = _LinalgProxy(env)
        self.random = _RandomProxy(env)

    def argsort(self, a, axis=-1, kind=None, order=None, **kwargs):
        env = self._env
        idx = _REAL_NP.argsort(a, axis=axis, kind=kind, order=order, **kwargs)
        if kind is not None or env.in_monitor:
            return idx
        env.count('np.argsort(unstable)')
        a = _REAL_NP.asarray(a)
        if a.ndim == 1 and len(a) > 1 and env.want('TIEORDER'):
            vals = a[idx]
            idx = idx.copy()
            i = 0
            changed = False
            n = len(a)
            while i < n:
                j = i + 1
                while j < n and vals[j] == vals[i]:
                    j += 1
                if j - i >= 2:
                    perm = env.gen.permutation(j - i)
                    if (perm != _REAL_NP.arange(j - i)).any():
                        changed = True
                    idx[i:j] = idx[i:j][perm]
                i = j
            if changed:
                env.fire('TIEORDER')
                env.log('TIEORDER', idx)
        return idx


class Seams:
    """Context manager installing the seams of one session."""

    def __init__(self, env: Env):
        self.env = env
        self.saved = []

    def _set(self, mod, name, value):
        # a refactoring may have removed the attribute: then this seam is simply absent (injection stops
        # there, visible as fired = 0 in the evidence); the oracles do not depend on it
        if not hasattr(mod, name):
            self.env.count(f'seam_missing:{mod.__name__}.{name}')
            return
        self.saved.append((mod, name, getattr(mod, name)))
        setattr(mod, name, value)

    def __enter__(self):
        ptn = load_pytenet()
        env = self.env
        proxy = NumpyProxy(env)
        for mod in (ptn.bond_ops, ptn.mps, ptn.mpo, ptn.util):
            self._set(mod, 'np', proxy)

        # --- scipy seams in krylov ---
        real_eigh_tri = getattr(ptn.krylov, 'eigh_tridiagonal', None)
        real_expm = getattr(ptn.krylov, 'expm', None)

        def eigh_tridiagonal(d, e, *args, **kwargs):
            env.count('eigh_tridiagonal')
            w, u = real_eigh_tri(d, e, *args, **kwargs)
            if env.in_monitor:
                return w, u
            if u.shape[1] > 0 and env.want('EIGSIGN'):
                sg = np.where(env.gen.integers(0, 2, size=u.shape[1]) == 1, -1.0, 1.0)
                if (sg == 1).all():
                    sg[int(env.gen.integers(0, u.shape[1]))] = -1.0
                u = u * sg[None, :]
                env.fire('EIGSIGN')
                env.log('EIGSIGN', sg)
            if env.want('ULP'):
                u = u * _ulp_factors(env.gen, u.shape)
                env.fire('ULP')
                env.log('ULPeig')
            return w, u

        def expm(a, *args, **kwargs):
            env.count('expm')
            r = real_expm(a, *args, **kwargs)
            if not env.in_monitor and env.want('ULP'):
                r = r * _ulp_factors(env.gen, r.shape)
                env.fire('ULP')
                env.log('ULPexpm')
            return r

        self._set(ptn.krylov, 'eigh_tridiagonal', eigh_tridiagonal)
        self._set(ptn.krylov, 'expm', expm)

        # --- call-boundary monitors ---
        def wrap(real, name):
            def wrapper(*args, **kwargs):
                mon = env.monitors.get(name)
                if mon is None or env.in_monitor:
                    return real(*args, **kwargs)
                return mon(real, args, kwargs)
            wrapper.__name__ = getattr(real, '__name__', name)
            wrapper.__wrapped__ = real
            return wrapper

        def have(mod, name):
            return getattr(mod, name, None)
        real_qr = ptn.bond_ops.qr
        wqr = wrap(real_qr, 'qr')
        for mod in (ptn.mps, ptn.mpo, ptn.evolution):
            self._set(mod, 'qr', wqr)
        wsplit = wrap(ptn.bond_ops.split_matrix_svd, 'split_matrix_svd')
        self._set(ptn.mps, 'split_matrix_svd', wsplit)
        wret = wrap(ptn.bond_ops.retained_bond_indices, 'retained_bond_indices')
        self._set(ptn.mps, 'retained_bond_indices', wret)
        self._set(ptn.bond_ops, 'retained_bond_indices', wret)
        wlan = wrap(ptn.krylov.lanczos_iteration, 'lanczos_iteration')
        warn = wrap(ptn.krylov.arnoldi_iteration, 'arnoldi_iteration')
        self._set(ptn.krylov, 'lanczos_iteration', wlan)
        self._set(ptn.krylov, 'arnoldi_iteration', warn)
        wexp = wrap(ptn.krylov.expm_krylov, 'expm_krylov')
        self._set(ptn.evolution, 'expm_krylov', wexp)
        weig = wrap(ptn.krylov.eigh_krylov, 'eigh_krylov')
        self._set(ptn.minimization, 'eigh_krylov', weig)
        self.wrapped = {'qr': wqr, 'split_matrix_svd': wsplit, 'retained_bond_indices': wret,
                        'lanczos_iteration': wlan, 'arnoldi_iteration': warn,
                        'expm_krylov': wexp, 'eigh_krylov': weig}
        return self

    def __exit__(self, *exc):
        for mod, name, val in reversed(self.saved):
            setattr(mod, name, val)
        self.saved = []
        return False
