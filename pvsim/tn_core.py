"""TN world executor, part 1: pool, reference model, snapshots, guarded execution, C02/C19 oracles."""
import copy
import numpy as np

from .base import SessionBase, HarnessError
from .seams import load_pytenet, InjectedBackendFailure, environmental_exception
from . import dense as dn

TOL = 1e-10          # dense comparisons, times the natural scale
ISO_TOL = 1e-11      # isometry defects (entries O(1))
POOL_MAX = 9


class Obj:
    __slots__ = ('kind', 'ref', 'dense', 'scale', 'herm', 'tag', 'traj', 'uid', 'norm2', 'retired', 'version', 'why', 'prec', 'longp', 'narrowq')

    def __init__(self, kind, ref, tag, uid):
        self.kind = kind
        self.ref = ref
        self.tag = tag
        self.uid = uid
        self.dense = None
        self.scale = 1.0
        self.herm = False
        self.traj = None
        self.norm2 = None
        self.retired = False
        self.version = 0
        self.why = None
        self.prec = 1.0
        self.longp = False
        self.narrowq = False


def snap_q(q):
    if isinstance(q, np.ndarray):
        return ('nd', q.dtype.str, q.shape, q.tobytes())
    return ('py', repr(q))


def snap_ref(r):
    return (tuple(('nd', a.dtype.str, a.shape, a.tobytes()) if isinstance(a, np.ndarray) else ('py', repr(a)) for a in r.A),
            snap_q(r.qd), tuple(snap_q(q) for q in r.qD), len(r.A), len(r.qD))


def arrays_of(r):
    out = [a for a in r.A if isinstance(a, np.ndarray)]
    if isinstance(r.qd, np.ndarray):
        out.append(r.qd)
    out += [q for q in r.qD if isinstance(q, np.ndarray)]
    return out


SINGLE = (np.float32, np.complex64)
# operations in which single / extended precision objects take part (tolerances scaled by Obj.prec there)
LOWPREC_OK = {'vdot', 'norm', 'op_avg', 'op_inner', 'op_density', 'as_vector', 'as_matrix', 'add', 'sub', 'matmul', 'apply',
              'orthonormalize', 'deepcopy', 'share_copy', 'zero_qnumbers', 'new_mps', 'new_mpo'}
LONG_OK = LOWPREC_OK - {'orthonormalize'}       # LAPACK has no extended precision: QR / SVD of longdouble raise in numpy


# objects whose charge labels are held in one narrow / unsigned integer type: only where the library keeps that type to itself
NARROWQ_OK = {'orthonormalize', 'compress', 'as_vector', 'as_matrix', 'norm', 'deepcopy', 'new_mps', 'new_mpo'}
NARROW_TYPES = (np.uint8, np.uint16, np.uint32, np.uint64, np.int8, np.int16)


def dtype_prec(arrs):
    """Tolerance factor relative to double precision: 1 for double / extended, 1e6 for single precision tensors."""
    return 1e6 if any(isinstance(a, np.ndarray) and a.dtype.type in SINGLE for a in arrs) else 1.0


class TNCore(SessionBase):
    world = 'tn'

    def __init__(self, session):
        super().__init__(session)
        self.pool = []
        self.uid = 0
        self.L = self.cfg['L']
        self.d = self.cfg['d']
        self.qd = list(self.cfg['qd'])
        self.ptn = load_pytenet()

    # ---- pool ------------------------------------------------------------------------------------
    def live(self, kind=None, pred=None):
        return [o for o in self.pool if not o.retired and (kind is None or o.kind == kind) and (pred is None or pred(o))]

    def pick(self, sel, kind=None, pred=None):
        c = self.live(kind, pred)
        if self.opkind not in LOWPREC_OK:
            c = [o for o in c if o.prec == 1.0 and not o.longp]
        elif self.opkind not in LONG_OK:
            c = [o for o in c if not o.longp]
        if self.opkind not in NARROWQ_OK:
            c = [o for o in c if not o.narrowq]
        if not c:
            return None
        return c[int(sel) % len(c)]

    def add_obj(self, kind, ref, tag):
        self.uid += 1
        o = Obj(kind, ref, tag, self.uid)
        self.pool.append(o)
        self.resync(o)
        livec = self.live()
        if len(livec) > POOL_MAX:
            # deterministic eviction: oldest object that is not the only one of its kind
            for cand in livec:
                if len(self.live(cand.kind)) > 1 and cand is not o:
                    cand.retired = True
                    break
        self.pool = [x for x in self.pool if not x.retired]
        return o

    def structurally_sound(self, r, kind):
        try:
            if len(r.qD) != len(r.A) + 1:
                return False
            nd = 3 if kind == 'mps' else 4
            for i, a in enumerate(r.A):
                if not isinstance(a, np.ndarray) or a.ndim != nd:
                    return False
                if i + 1 < len(r.A) and a.shape[-1] != r.A[i + 1].shape[-2]:
                    return False
                if 0 in a.shape:
                    return False
            if r.A[0].shape[-2] != 1 or r.A[-1].shape[-1] != 1:
                return False
            return True
        except Exception:
            return False

    def resync(self, o):
        """Recompute the dense model of an object from its tensors (my own contraction)."""
        r = o.ref
        o.version += 1
        if not self.structurally_sound(r, o.kind):
            o.retired = True
            o.dense = None
            return
        if o.kind == 'mps':
            o.dense = dn.mps_to_vector(r.A)
        else:
            o.dense = dn.mpo_to_matrix(r.A)
            M = o.dense
            nm = float(np.linalg.norm(M))
            o.herm = bool(np.linalg.norm(M - M.conj().T) <= 1e-12 * max(nm, 1e-300)) and nm > 0
            o.norm2 = None
        o.scale = dn.abs_scale(r.A)
        o.prec = max(o.prec, dtype_prec(r.A))           # sticky: a result computed from single precision data stays "single"
        o.longp = o.longp or any(a.dtype.type in (np.longdouble, np.clongdouble) for a in r.A)
        o.narrowq = any(isinstance(q, np.ndarray) and q.dtype.type in NARROW_TYPES for q in [r.qd] + list(r.qD))
        lo, hi = (1e-140, 1e140) if o.prec == 1.0 else (1e-15, 1e15)      # squares must stay normal numbers of the working precision
        if not (lo <= o.scale <= hi) and np.any(o.dense):
            # the square of the overall magnitude is not representable: norms and inner products of the object as a whole
            # are outside double precision (long chains of uniformly tiny / huge tensors); nothing can be judged on it
            o.retired = True
            o.why = 'magnitude'
            o.dense = None
            self.probe('object_with_unrepresentable_overall_magnitude_retired')
            return
        if not np.all(np.isfinite(o.dense)):
            # non-finite entries (the producing operation has been judged already): nothing can be judged on it later
            o.retired = True
            o.dense = None
            self.probe('object_with_nonfinite_entries_retired')

    def unusable(self, o, props, what):
        """A result that cannot be contracted / has non-finite entries is a violation; one whose overall magnitude has left
        the representable range of squared norms (operands near the limits) is merely outside the model."""
        if o.why == 'magnitude':
            self.skip('result_of_unrepresentable_overall_magnitude')
        else:
            self.check(False, props, 'object_unusable', what)

    @staticmethod
    def P(*objs):
        return max([o.prec for o in objs if o is not None] + [1.0])

    def opnorm2(self, o):
        if o.norm2 is None:
            o.norm2 = float(np.linalg.norm(o.dense, 2))
        return o.norm2

    def is_zero(self, o):
        return float(np.linalg.norm(o.dense)) <= 1e-6 * o.scale

    def qd_eq(self, a, b):
        return np.array_equal(np.asarray(a.ref.qd), np.asarray(b.ref.qd))

    def abstract_state(self):
        return tuple((o.kind, tuple(o.ref.A[i].shape[-1] for i in range(len(o.ref.A))) if not o.retired else None,
                      str(o.ref.A[0].dtype) if not o.retired else '') for o in self.pool[-3:])

    # ---- C02 invariants ----------------------------------------------------------------------
    def check_c02(self, o, what):
        r = o.ref
        kind = o.kind
        nphys = 1 if kind == 'mps' else 2
        ok = True
        ok &= self.check(dn.is_int_1d_array(r.qd), 'C02', 'qd_is_int_array', lambda: f'{what}: qd is {type(r.qd).__name__} {getattr(r.qd, "dtype", "")}')
        for i, q in enumerate(r.qD):
            ok &= self.check(dn.is_int_1d_array(q), 'C02', 'qD_is_int_array', lambda: f'{what}: qD[{i}] is {type(q).__name__} {getattr(q, "dtype", "")}: {q!r}'[:200])
        if not self.check(len(r.qD) == len(r.A) + 1, 'C02', 'qD_count', lambda: f'{what}: {len(r.qD)} bond lists for {len(r.A)} tensors'):
            return False
        for i, A in enumerate(r.A):
            if not self.check(isinstance(A, np.ndarray) and A.ndim == nphys + 2, 'C02', 'tensor_rank', lambda: f'{what}: A[{i}] {type(A).__name__} ndim {getattr(A, "ndim", None)}'):
                return False
            lens_ok = (len(r.qd) == A.shape[0] and (nphys == 1 or len(r.qd) == A.shape[1])
                       and len(r.qD[i]) == A.shape[nphys] and len(r.qD[i + 1]) == A.shape[nphys + 1])
            if not self.check(lens_ok, 'C02', 'label_lengths',
                              lambda: f'{what}: A[{i}].shape={A.shape} len(qd)={len(r.qd)} len(qD[{i}])={len(r.qD[i])} len(qD[{i+1}])={len(r.qD[i+1])}'):
                ok = False
                continue
            try:
                qdv = np.asarray(r.qd, dtype=np.int64)
                ql = np.asarray(r.qD[i], dtype=np.int64)
                qr_ = np.asarray(r.qD[i + 1], dtype=np.int64)
            except Exception:
                ok = False
                continue
            qs = [qdv, ql, -qr_] if nphys == 1 else [qdv, -qdv, ql, -qr_]
            off = dn.offsupport_max(A, qs, dn.label_modulus(r.qd, r.qD[i], r.qD[i + 1]))
            ok &= self.check(off == 0.0, 'C02', 'block_sparse', lambda: f'{what}: A[{i}] has entry {off!r} off the charge-conserving support')
        return ok

    # ---- C19 helpers -------------------------------------------------------------------------
    def snapshot_pool(self):
        return {o.uid: snap_ref(o.ref) for o in self.pool if not o.retired}

    def compare_pool(self, snap, except_uids, why, props=('C19',), hprops=None):
        ok = True
        for o in self.pool:
            if o.retired or o.uid in except_uids or o.uid not in snap:
                continue
            same = snap_ref(o.ref) == snap[o.uid]
            pl = list(props) + list((hprops or {}).get(o.uid, []))
            ok &= self.check(same, pl, why, lambda: f'object #{o.uid} ({o.kind}, {o.tag}) changed although it is not the documented target')
            if not same:
                self.resync(o)
        return ok

    def scribble(self, res_obj, extra_arrays=()):
        """
        C19: overwrite every array reachable from a returned MPS/MPO in place; nothing else may change.
        `extra_arrays` are caller-owned arrays that were passed as arguments (e.g. the qd list).
        """
        res_ref = res_obj.ref
        snap = self.snapshot_pool()
        arrs = []
        for a in arrays_of(res_ref):
            if not any(a is b for b in arrs):      # the same array may sit on several sites (user level sharing)
                arrs.append(a)
        saved = []
        extra_before = [a.tobytes() for a in extra_arrays]
        for a in arrs:
            if not a.flags.writeable:
                self.check(False, 'C19', 'result_readonly_view', 'a tensor of the returned object is a read-only view (of a write-protected operand)')
                continue
            saved.append((a, a.copy()))
            if np.issubdtype(a.dtype, np.integer):
                a[...] = a + (7919 if a.dtype.itemsize >= 4 else 37)
            else:
                a[...] = a * 3 + 7
        # list containers must be private too
        for o in self.pool:
            if o.retired or o.ref is res_ref:
                continue
            self.check(o.ref.A is not res_ref.A and o.ref.qD is not res_ref.qD, 'C19', 'result_shares_list',
                       lambda: f'returned object shares its tensor / bond list container with object #{o.uid}')
        self.compare_pool(snap, {res_obj.uid}, 'result_aliases_operand')
        for a, b in zip(extra_arrays, extra_before):
            self.check(a.tobytes() == b, 'C19', 'result_aliases_argument', 'writing into the returned object changed an argument array')
        for a, b in reversed(saved):
            a[...] = b

    # ---- layout / write protection -----------------------------------------------------------
    def relayout(self, o, how, gen):
        """Replace tensors of `o` by equal-valued arrays with another memory layout (caller-owned arrays)."""
        r = o.ref
        changed = False
        for i, A in enumerate(r.A):
            if how == 'F':
                B = np.asfortranarray(A)
                if A.ndim >= 2 and B is A:
                    B = np.array(A, order='F')
            elif how == 'strided':
                big = np.zeros(tuple(2 * s for s in A.shape), dtype=A.dtype)
                sl = tuple(slice(0, 2 * s, 2) for s in A.shape)
                big[sl] = A
                B = big[sl]
            elif how == 'ro':
                B = np.array(A, order='F')
            else:
                continue
            r.A[i] = B
            changed = True
        if changed:
            self.env.fire('LAYOUT')

    def protect(self, objs):
        flags = []
        for o in objs:
            for a in arrays_of(o.ref):
                flags.append((a, a.flags.writeable))
                try:
                    a.flags.writeable = False
                except ValueError:
                    pass
        if flags:
            self.env.fire('WPROT')
        return flags

    def unprotect(self, flags):
        for a, w in flags:
            try:
                a.flags.writeable = w
            except ValueError:
                pass

    # ---- guarded execution of one public operation ---------------------------------------
    def guarded(self, op, fn, targets=(), operands=(), owners=('C02',), c02_listed=True, hprops=None):
        """
        Runs fn() with the op's environment armed.  Returns (status, result) with status in
        'ok' | 'injected' | 'raised'.  C19: every live object except `targets` must be bit-identical
        afterwards; non-target operands are write-protected during the call when WPROT is on.
        """
        env = self.env
        oenv = op.get('env', {})
        if oenv.get('layout') and 'LAYOUT' in env.enabled:
            for o in list(operands) + list(targets):
                how = oenv['layout']
                if how == 'ro' and o in targets:
                    how = 'F'
                self.relayout(o, how, None)
        snap = self.snapshot_pool()
        self._snap = snap
        flags = []
        if oenv.get('wprot') and 'WPROT' in env.enabled:
            flags = self.protect([o for o in operands if o not in targets])
        env.begin_op(oenv)
        exc = None
        res = None
        try:
            res = fn()
        except InjectedBackendFailure as e:
            exc = e
        except Exception as e:   # noqa
            exc = e
        finally:
            env.end_op()
            self.unprotect(flags)
        tuids = set(o.uid for o in targets)
        self.compare_pool(snap, tuids, 'operand_or_bystander_modified', hprops=hprops)
        if exc is None:
            for p in set(list(owners) + (['C02'] if c02_listed else [])):
                self.judged[(p, 'raised')] += 1
            if any(o.retired for o in operands if o not in targets):
                # an operand was left unusable by the call (already reported above): nothing further can be judged
                self.pool = [x for x in self.pool if not x.retired]
                return 'corrupted', None
            return 'ok', res
        if isinstance(exc, InjectedBackendFailure) or env.raised is not None and exc is env.raised:
            self.probe('raise_fired_in_op')
            for o in targets:
                o.retired = True   # a torn target is outside every property; it leaves the pool
            self.pool = [x for x in self.pool if not x.retired]
            return 'injected', None
        if environmental_exception(exc, oenv) and 'GLOBALS' in env.enabled:
            # the caller's own global settings (warnings as errors / numpy error state 'raise') turned a warning into
            # an exception: the call failed at the caller's request; bystanders were compared above, targets are torn
            self.probe('environmental_exception:' + type(exc).__name__ + ':' + str(exc)[:48])
            for o in targets:
                o.retired = True
            self.pool = [x for x in self.pool if not x.retired]
            return 'injected', None
        msg = f'{type(exc).__name__}: {exc}'
        if isinstance(exc, ValueError) and 'read-only' in str(exc) and flags:
            self.check(False, 'C19', 'write_attempt_on_operand', msg)
        else:
            props = list(owners)
            if c02_listed and 'C02' not in props:
                props.append('C02')
            self.check(False, props, 'raised', f'{op["op"]}: {msg}')
        for o in targets:
            self.resync(o)
            # a target left in an unusable state leaves the pool
            try:
                self.quiet_c02(o)
            except Exception:
                o.retired = True
        self.pool = [x for x in self.pool if not x.retired]
        return 'raised', None

    def quiet_c02(self, o):
        r = o.ref
        for q in [r.qd] + list(r.qD):
            if not dn.is_int_1d_array(q):
                raise ValueError('labels')
