"""TN world executor, part 2: constructors (incl. Hamiltonians, C20 clause 1) and copies."""
import copy
import numpy as np

from .tn_core import TNCore, TOL
from . import dense as dn


def cplx(x):
    if isinstance(x, (list, tuple)):
        return complex(x[0], x[1])
    return x


def rep_scalar(x, k, kind='float'):
    """The same number in another legal representation (Python number, numpy scalar, 0-d array)."""
    if k is None:
        return x
    k = int(k) % 4
    if kind == 'int':
        return [int(x), np.int64(x), np.int32(x), int(x)][k]
    if kind == 'complex':
        z = complex(x)
        if z.imag == 0 and k == 3:
            return float(z.real)                  # a real step handed over as a real number
        return [z, np.complex128(z), np.array(z), z][k]
    return [float(x), np.float64(x), np.array(float(x)), float(x)][k]


def rep_labels(qd, qD, k):
    """Physical and bond quantum numbers in another legal representation (lists, tuples, other integer dtypes)."""
    qd = [int(x) for x in qd]
    qD = [[int(x) for x in q] for q in qD]
    if k is None:
        return np.array(qd, dtype=int), qD
    k = int(k) % 12
    allq = qd + [x for q in qD for x in q] + [0]
    lo, hi = min(allq), max(allq)
    if k == 0:
        return list(qd), [tuple(q) for q in qD]
    if k == 1 and -2 ** 20 < lo and hi < 2 ** 20:
        return np.array(qd, dtype=np.int32), [np.array(q, dtype=np.int32) for q in qD]
    if k == 2:
        return tuple(qd), [np.array(q, dtype=np.int64) for q in qD]
    if k == 3:
        return np.array(qd, dtype=np.int64), tuple(list(q) for q in qD)
    if k == 4:
        return np.array(qd, dtype=int)[::-1][::-1], [np.array(q + q, dtype=int)[:len(q)] for q in qD]    # views
    # one narrow / unsigned integer type used uniformly (particle numbers are naturally unsigned); numpy arithmetic on
    # such labels is consistent modulo 2^bits
    for kk, dt, ok in ((5, np.uint8, 0 <= lo and hi < 100), (6, np.uint16, 0 <= lo and hi < 2 ** 14), (7, np.uint32, 0 <= lo and hi < 2 ** 30),
                       (9, np.int8, -50 < lo and hi < 50), (10, np.int16, -2 ** 13 < lo and hi < 2 ** 13)):
        if k == kk and ok:
            return np.array(qd, dtype=dt), [np.array(q, dtype=dt) for q in qD]
    return np.array(qd, dtype=int), qD


def mol_coeffs(L, sub, structure):
    g = np.random.Generator(np.random.PCG64(sub))
    t = g.normal(size=(L, L))
    v = g.normal(size=(L, L, L, L))
    if structure in ('sym', 'sparse'):
        t = 0.5 * (t + t.T)
        v = 0.5 * (v + v.transpose(2, 3, 0, 1))
    if structure == 'sparse':
        t = t * (g.random(size=t.shape) < 0.6)
        t = 0.5 * (t + t.T)
        m = g.random(size=v.shape) < 0.5
        m = m & m.transpose(2, 3, 0, 1)
        v = v * m
    return t, v


class TNCtor(TNCore):

    def finish_new(self, kind, ref, tag, op, extra_arrays=(), c03_model=None, c03_scale=None):
        o = self.add_obj(kind, ref, tag)
        self.check_c02(o, f'{op["op"]} result')
        if o.retired:
            return o
        if c03_model is not None:
            sc = c03_scale if c03_scale is not None else max(o.scale, float(np.linalg.norm(c03_model)))
            dev = float(np.linalg.norm(o.dense - c03_model))
            self.check(dev <= TOL * sc, 'C03', f'{op["op"]}_dense', lambda: f'|dense(result) - expected|={dev:.3e} scale={sc:.3e}')
        self.scribble(o, extra_arrays)
        if any(np.issubdtype(a.dtype, np.integer) for a in o.ref.A):
            self.probe('int_dtype_object')
        return o

    def post_entries(self, ref, entries):
        for i, A in enumerate(ref.A):
            if entries == 'real':
                ref.A[i] = A.real.copy()
            elif entries == 'int':
                ref.A[i] = np.round(A.real * 4).astype(np.int64)
            elif entries == 'dyadic':
                ref.A[i] = np.round(A * 16) / 16
            elif entries == 'single':
                ref.A[i] = A.astype(np.complex64)
            elif entries == 'singlereal':
                ref.A[i] = A.real.astype(np.float32)
            elif entries == 'long':
                ref.A[i] = A.astype(np.clongdouble)

    def op_new_mps(self, op):
        ptn = self.ptn
        qd_arg, qD = rep_labels(op.get('qd_override', self.qd), op['qD'], op.get('rep'))
        if op.get('rep') is not None:
            self.probe('labels_in_alternative_representation')
        if len(qD) != self.L + 1 or len(qD[0]) != 1 or len(qD[-1]) != 1:
            return 'skipped'
        fill = op.get('fill', 'rng')

        def fn():
            if fill == 'rng':
                return ptn.MPS(qd_arg, qD, fill='random', rng=np.random.Generator(np.random.PCG64(op['sub'])))
            if fill == 'env':
                return ptn.MPS(qd_arg, qD, fill='random')
            return ptn.MPS(qd_arg, qD, fill=cplx(op.get('value', 1.0)))
        st, ref = self.guarded(op, fn, owners=('C02',))
        if st != 'ok':
            return st
        self.post_entries(ref, op.get('entries', 'complex'))
        if op.get('style') == 'ghz' and 'weights' in op and not any(qd_arg):
            # GHZ-like state with exactly representable (dyadic) weights: exactly degenerate Schmidt values
            d = len(qd_arg)
            for i in range(len(ref.A)):
                w = np.asarray(op['weights'][i % len(op['weights'])], dtype=float)
                T = np.zeros(ref.A[i].shape)
                for p_ in range(d):
                    a = p_ if T.shape[1] > 1 else 0
                    b = p_ if T.shape[2] > 1 else 0
                    T[p_, a, b] = w[p_ % len(w)]
                ref.A[i] = T
            self.probe('ghz_state')
        o = self.finish_new('mps', ref, 'new:' + op.get('style', ''), op, extra_arrays=[qd_arg] if isinstance(qd_arg, np.ndarray) else [])
        if not o.retired and float(np.linalg.norm(o.dense)) == 0.0:
            self.probe('zero_state')
        return 'ok'

    def op_new_mpo(self, op):
        ptn = self.ptn
        qd_arg, qD = rep_labels(self.qd, op['qD'], op.get('rep'))
        if len(qD) != self.L + 1:
            return 'skipped'
        fill = op.get('fill', 'rng')

        def fn():
            if fill == 'rng':
                return ptn.MPO(qd_arg, qD, fill='random', rng=np.random.Generator(np.random.PCG64(op['sub'])))
            if fill == 'env':
                return ptn.MPO(qd_arg, qD, fill='random')
            return ptn.MPO(qd_arg, qD, fill=cplx(op.get('value', 1.0)))
        st, ref = self.guarded(op, fn, owners=('C02',))
        if st != 'ok':
            return st
        self.post_entries(ref, op.get('entries', 'complex') if fill != 'scalar' else 'asis')
        mag = op.get('magnitude', 'normal')
        if mag != 'normal' and not any(np.issubdtype(a.dtype, np.integer) or a.dtype.type in (np.float32, np.complex64) for a in ref.A):
            n = len(ref.A)
            if mag == 'unbalanced' and n >= 2:
                ref.A[0] = ref.A[0] * 2.0 ** -60
                ref.A[-1] = ref.A[-1] * 2.0 ** 60
            elif mag == 'tiny':
                for j in range(n):
                    ref.A[j] = ref.A[j] * 2.0 ** -18
            elif mag == 'huge':
                for j in range(n):
                    ref.A[j] = ref.A[j] * 2.0 ** 12
            self.probe('mpo_magnitude_' + mag)
        self.finish_new('mpo', ref, 'new', op, extra_arrays=[qd_arg] if isinstance(qd_arg, np.ndarray) else [])
        return 'ok'

    def op_identity(self, op):
        ptn = self.ptn
        qd_arg = np.array(self.qd, dtype=int)
        scale = cplx(op.get('scale', 1))
        dtype = complex if op.get('dtype') == 'complex' or isinstance(scale, complex) else float
        st, ref = self.guarded(op, lambda: ptn.MPO.identity(qd_arg, self.L, scale=scale, dtype=dtype), owners=('C03',))
        if st != 'ok':
            return st
        n = self.d ** self.L
        want = (scale ** self.L) * np.identity(n)
        self.finish_new('mpo', ref, 'identity', op, extra_arrays=[qd_arg], c03_model=want)
        return 'ok'

    # ---- Hamiltonians --------------------------------------------------------------------------
    def build_ham(self, op):
        ptn = self.ptn
        m = op['model']
        L = self.L
        if m == 'xxz':
            return ptn.heisenberg_xxz_mpo(L, *op['params'])
        if m == 'spin1':
            return ptn.heisenberg_xxz_spin1_mpo(L, *op['params'])
        if m == 'bose':
            return ptn.bose_hubbard_mpo(self.d, L, *op['params'])
        if m == 'fermi':
            return ptn.fermi_hubbard_mpo(L, *op['params'])
        if m == 'ising':
            return ptn.ising_mpo(L, *op['params'])
        if m == 'linferm':
            g = np.random.Generator(np.random.PCG64(op['sub']))
            coeff = g.normal(size=L) + 1j * g.normal(size=L)
            return ptn.linear_fermionic_mpo(coeff, op.get('ftype', 'c'))
        if m in ('mol', 'mol_explicit', 'spinmol', 'spinmol_explicit'):
            t, v = mol_coeffs(L, op['sub'], op.get('structure', 'sym'))
            fn = ptn.molecular_hamiltonian_mpo if m.startswith('mol') else ptn.spin_molecular_hamiltonian_mpo
            opt = m in ('mol', 'spinmol')
            # the flag as a caller may legitimately pass it: bool, numpy bool, int, or (optimised path) left at its default
            form = (int(op['sub']) >> 7) % 4
            if opt and form == 3:
                return fn(t, v)
            flag = [opt, np.bool_(opt), int(opt), opt][form]
            return fn(t, v, optimize=flag)
        raise ValueError(m)

    def ham_applicable(self, op):
        m = op['model']
        fam_ok = {'xxz': [1, -1], 'spin1': [1, 0, -1], 'ising': [0, 0], 'mol': [0, 1], 'mol_explicit': [0, 1], 'linferm': [0, 1]}
        if m in fam_ok and self.qd != fam_ok[m]:
            return False
        if m == 'bose' and self.qd != list(range(self.d)):
            return False
        if m in ('fermi', 'spinmol', 'spinmol_explicit') and self.d != 4:
            return False
        if m == 'mol_explicit' and self.L < 4:
            return False
        if m == 'spinmol_explicit' and self.L < 2:
            return False
        return True

    def ham_is_zero_operator(self, op):
        """Parameter sets that denote the identically-zero operator are outside every property's domain."""
        m = op['model']
        if m in ('xxz', 'spin1'):
            J, D, h = op['params']
            return (self.L < 2 or (J == 0 and D == 0)) and h == 0
        if m in ('bose', 'fermi'):
            t, U, mu = op['params']
            return (self.L < 2 or t == 0) and U == 0 and mu == 0
        if m in ('mol', 'spinmol'):
            # optimised constructions go through from_opchains: all coefficients zero <=> empty chain list
            t, v = mol_coeffs(self.L, op['sub'], op.get('structure', 'sym'))
            if np.any(t != 0):
                return False
            if m == 'mol':
                g = 0.5 * (v - v.transpose(1, 0, 2, 3) - v.transpose(0, 1, 3, 2) + v.transpose(1, 0, 3, 2))
                return not np.any(g != 0)
            g0 = 0.5 * (v + v.transpose(1, 0, 3, 2))
            g1 = 0.5 * (v.transpose(1, 0, 2, 3) + v.transpose(0, 1, 3, 2))
            return not (np.any(g0 != 0) or np.any(g1 != 0))
        return False

    def op_ham(self, op):
        if not self.ham_applicable(op):
            return 'skipped'
        if self.ham_is_zero_operator(op):
            self.skip('ham_zero_operator_outside_domain')
            return 'skipped'
        st, ref = self.guarded(op, lambda: self.build_ham(op), owners=('C02',))
        if st != 'ok':
            return st
        o = self.finish_new('mpo', ref, 'ham:' + op['model'], op)
        if o.retired:
            return 'ok'
        if op.get('generic') and op.get('structure') != 'sparse' and op['model'] in ('xxz', 'spin1', 'bose', 'fermi', 'ising', 'mol', 'spinmol') and self.L >= 2 and self.d >= 2:
            self.c20_ranks(o, op)
        return 'ok'

    def c20_ranks(self, o, op):
        M = o.dense
        L, d = self.L, self.d
        bd = o.ref.bond_dims
        for c in range(1, L):
            dl, dr = d ** c, d ** (L - c)
            T = M.reshape(dl, dr, dl, dr).transpose(0, 2, 1, 3).reshape(dl * dl, dr * dr)
            s = np.linalg.svd(T, compute_uv=False)
            if s[0] == 0:
                self.skip('c20_zero_operator')
                continue
            rel = s / s[0]
            r = int(np.sum(rel > 1e-8))
            clean = (r == len(rel) or rel[r] < 1e-12) and rel[r - 1] > 1e-8
            if not clean:
                self.skip('c20_rank_gap_unclear')
                continue
            self.check(bd[c] == r, 'C20', 'bond_equals_schmidt_rank',
                       lambda: f'{op["model"]} L={L} cut {c}: bond dimension {bd[c]} != operator Schmidt rank {r} (params {op.get("params", op.get("structure"))})')

    def op_herm_mpo(self, op):
        ptn = self.ptn
        qd_arg = np.array(self.qd, dtype=int)
        qD = [list(q) for q in op['qD']]
        if len(qD) != self.L + 1 or qD[0] != [0] or qD[-1] != [0]:
            return 'skipped'

        if op.get('product'):
            # a product operator h_1 x h_2 x ... with Hermitian factors: every MPO bond has dimension one
            qD = [[0] for _ in qD]
            self.probe('product_hermitian_mpo')

        def fn():
            A = ptn.MPO(qd_arg, qD, fill='random', rng=np.random.Generator(np.random.PCG64(op['sub'])))
            if op.get('product'):
                for i in range(len(A.A)):
                    X = A.A[i][:, :, 0, 0]
                    A.A[i] = (0.5 * (X + X.conj().T) + (0.5 if i % 2 else -0.25) * np.identity(X.shape[0])).reshape(A.A[i].shape)
                    if op.get('entries') == 'real':
                        A.A[i] = A.A[i].real.copy()
                return A
            if op.get('entries') == 'real':
                for i in range(len(A.A)):
                    A.A[i] = A.A[i].real.copy()
            B = ptn.MPO(qd_arg, [[-q for q in qq] for qq in qD], fill='postpone')
            B.A = [a.conj().transpose(1, 0, 2, 3).copy() for a in A.A]
            return A + B
        st, ref = self.guarded(op, fn, owners=('C03',))
        if st != 'ok':
            return st
        o = self.finish_new('mpo', ref, 'herm', op, extra_arrays=[qd_arg])
        if not o.retired and not o.herm and float(np.linalg.norm(o.dense)) > 0:
            self.check(False, 'C03', 'herm_sum_not_hermitian', 'A + A^dagger built through the public API is not Hermitian')
        return 'ok'

    def op_from_vector(self, op):
        ptn = self.ptn
        src = self.pick(op['sel'], 'mps', lambda o: float(np.linalg.norm(o.dense)) > 1e-6 * o.scale)
        if src is None:
            return 'skipped'
        L, d = self.L, self.d
        tol = float(op.get('tol', 0.0))
        if tol * L >= 1:
            tol = tol / (2 * L)
        v = src.dense.copy()
        if op.get('admix'):
            # a low-entanglement vector plus a tiny generic admixture: Schmidt spectra spanning many orders of magnitude
            g = np.random.Generator(np.random.PCG64(op.get('sub', 1)))
            r_ = g.normal(size=v.shape) + 1j * g.normal(size=v.shape)
            v = v / np.linalg.norm(v) + 2.0 ** -int(op['admix']) * r_ / np.linalg.norm(r_)
            self.probe('from_vector_tiny_admixture')
        if op.get('env', {}).get('layout') == 'ro':
            v.flags.writeable = False
        vb = v.tobytes()
        owners = ('C03', 'C13') if tol == 0 else ('C13',)
        tol_a = rep_scalar(tol, op.get('rep'))
        st, ref = self.guarded(op, lambda: ptn.MPS.from_vector(d, L, v, tol=tol_a), operands=(src,), owners=owners)
        if isinstance(tol_a, np.ndarray):
            self.check(float(tol_a) == float(tol), ['C19', 'C13'], 'tolerance_argument_modified', lambda: f'the 0-d array passed as tolerance changed from {tol!r} to {float(tol_a)!r}')
        self.check(v.tobytes() == vb, 'C19', 'argument_vector_modified', 'from_vector changed its input vector')
        if st != 'ok':
            return st
        o = self.add_obj('mps', ref, 'from_vector')
        self.check_c02(o, 'from_vector result')
        if o.retired:
            return 'ok'
        nv = float(np.linalg.norm(v))
        dev = float(np.linalg.norm(o.dense - v))
        if tol == 0:
            self.check(dev <= TOL * max(nv, o.scale), ['C03', 'C13'], 'from_vector_exact', lambda: f'|mps - v|={dev:.3e} |v|={nv:.3e}')
        else:
            self.check(dev <= np.sqrt(L * tol) * nv + TOL * max(nv, o.scale), 'C13', 'from_vector_bound',
                       lambda: f'|mps - v|={dev:.3e} > sqrt(L tol)|v|={np.sqrt(L*tol)*nv:.3e} (tol={tol}, L={L})')
        v.flags.writeable = True
        self.scribble(o, [v])
        return 'ok'

    def op_share_copy(self, op):
        """A user-built object that shares its tensor arrays (not its lists) with an existing one."""
        src = self.pick(op['sel'])
        if src is None or not all(isinstance(q, np.ndarray) for q in src.ref.qD):
            return 'skipped'
        cls = self.ptn.MPS if src.kind == 'mps' else self.ptn.MPO
        new = cls(np.array(src.ref.qd), [np.array(q) for q in src.ref.qD], fill='postpone')
        new.A = list(src.ref.A)
        o = self.add_obj(src.kind, new, src.tag + '+shared')
        o.prec = max(o.prec, src.prec)
        self.probe('object_sharing_tensor_arrays')
        return 'ok'

    def op_deepcopy(self, op):
        src = self.pick(op['sel'])
        if src is None:
            return 'skipped'
        st, ref = self.guarded(op, lambda: copy.deepcopy(src.ref), operands=(src,), owners=('C19',), c02_listed=False)
        if st != 'ok':
            return st
        o = self.add_obj(src.kind, ref, src.tag)
        o.prec = max(o.prec, src.prec)
        o.traj = None
        self.scribble(o)
        return 'ok'
