"""TN world executor, part 4: TDVP (C08, C09), DMRG (C10) and the call-boundary monitors (C11, C12, C14, C15)."""
import numpy as np
import scipy.linalg as sla

from .tn_core import TOL, ISO_TOL
from .tn_ops import TNOps, bond_dims
from .tn_ctor import cplx, rep_scalar
from . import dense as dn
from . import kr_oracle as ko

DYN_TOL = 1e-9
MON_NMAX = 40          # largest local problem for which the monitors build the dense map
MON_PER_OP = 24        # at most this many Krylov calls are judged per operation


class TNDyn(TNOps):

    # ------------------------------------------------------------------------------------------
    def pick_H_psi(self, op, need_two=False):
        # Hamiltonians with zero boundary bond labels (what every constructor produces); a Hermitian MPO whose
        # labels carry a common non-zero offset trips the integrators' own sanity assertion (DESIGN 7.8)
        H = self.pick(op['H'], 'mpo', lambda o: o.herm and dn.is_int_1d_array(o.ref.qD[0]) and dn.is_int_1d_array(o.ref.qD[-1])
                      and int(o.ref.qD[0][0]) == 0 and int(o.ref.qD[-1][0]) == 0)
        if H is None:
            return None, None
        psi = self.pick(op['psi'], 'mps', lambda o: self.qd_eq(H, o) and float(np.linalg.norm(o.dense)) > 1e-6 * o.scale
                        and o.scale / float(np.linalg.norm(o.dense)) <= 1e4
                        and all(dn.is_int_1d_array(q) for q in o.ref.qD))
        return H, psi

    def basis_charges(self, qd):
        q = np.zeros(1, dtype=np.int64)
        for _ in range(self.L):
            q = np.add.outer(q, np.asarray(qd, dtype=np.int64)).reshape(-1)
        return q

    def one_sided_complete(self, psi, v):
        """
        DESIGN 7.6: at every cut, every charge block of the state has full row rank, or every block
        has full column rank.  Returns True / False / None (rank gap unclear).
        """
        L, d = self.L, self.d
        qd = np.asarray(psi.ref.qd, dtype=np.int64)
        qtot = int(psi.ref.qD[-1][0]) - int(psi.ref.qD[0][0])
        for c in range(1, L):
            ql = np.zeros(1, dtype=np.int64)
            for _ in range(c):
                ql = np.add.outer(ql, qd).reshape(-1)
            qr = np.zeros(1, dtype=np.int64)
            for _ in range(L - c):
                qr = np.add.outer(qr, qd).reshape(-1)
            M = v.reshape(len(ql), len(qr))
            left_ok = True
            right_ok = True
            for a in np.unique(ql):
                rows = np.where(ql == a)[0]
                cols = np.where(qr == qtot - a)[0]
                if len(rows) == 0 or len(cols) == 0:
                    continue
                B = M[np.ix_(rows, cols)]
                s = np.linalg.svd(B, compute_uv=False)
                if s[0] <= 1e-14:
                    r = 0
                else:
                    rel = s / np.linalg.norm(v)
                    r = int(np.sum(rel > 1e-6))
                    if np.any((rel <= 1e-6) & (rel > 1e-12)):
                        return None
                left_ok &= (r == len(rows))
                right_ok &= (r == len(cols))
            if not (left_ok or right_ok):
                return False
        return True

    def full_rank_representation(self, psi, v0):
        """
        True iff, after the right-orthonormalisation every integrator starts with, each bond dimension equals
        the Schmidt rank of the state at that cut (the representation is a regular point of the manifold).
        """
        import copy as _copy
        c = _copy.deepcopy(psi.ref)
        try:
            c.orthonormalize(mode='right')
        except Exception:
            return None
        bd = bond_dims(c, 'mps')
        L, d = self.L, self.d
        for cut in range(1, L):
            s = dn.schmidt_values(v0, d ** cut)
            r = int(np.sum(s > 1e-8))
            if np.any((s <= 1e-8) & (s > 1e-13)):
                return None
            if bd[cut] != r:
                return False
        return True

    def product_like(self, H):
        """h_1 x ... x h_L + alpha 1 (whatever its MPO representation: a product operator shifted by the identity has the
        same eigenvectors, hence the same invariant-subspace trap for the local eigensolver)."""
        key = (H.uid, H.version)
        c = getattr(self, '_prod_cache', None)
        if c is None or c[0] != key:
            self._prod_cache = c = (key, bool(dn.is_product_plus_identity(H.dense, self.d, self.L)))
        return c[1]

    def spectrum(self, H):
        key = (H.uid, H.version)
        c = getattr(self, '_spec_cache', None)
        if c is None or c[0] != key:
            M = H.dense
            self._spec_cache = c = (key, np.linalg.eigvalsh((M + M.conj().T) / 2))
        return c[1]

    def spectral_spread(self, H):
        ev = self.spectrum(H)
        return float(ev[-1] - ev[0])

    def max_local_dim(self, psi, sites):
        bd = bond_dims(psi.ref, 'mps')
        d = self.d
        if sites == 1:
            return max(d * bd[i] * bd[i + 1] for i in range(len(bd) - 1))
        # two-site: bonds may grow up to what the neighbours allow
        L = len(bd) - 1
        full = [min(d ** i, d ** (L - i)) for i in range(L + 1)]
        return max(d * d * max(bd[i], 1) * max(bd[i + 2], 1) for i in range(L - 1)) if L >= 2 else 0

    # ------------------------------------------------------------------------------------------
    def op_tdvp(self, op):
        ptn = self.ptn
        sites = int(op.get('sites', 1))
        H, psi = self.pick_H_psi(op)
        if H is None or psi is None or (sites == 2 and self.L < 2):
            return 'skipped'
        nH = self.opnorm2(H)
        if not (1e-3 <= nH <= 1e4):
            self.skip('tdvp_H_norm_out_of_class')
            return 'skipped'
        dt_rel = cplx(op['dt'])
        dt = dt_rel / nH
        n = int(op['n'])
        numiter = int(op['numiter'])
        tol_split = float(op.get('tol_split', 0.0)) if sites == 2 else 0.0
        M = H.dense
        self.transient_extreme(psi, op)
        v_in = psi.dense.copy()
        nv = float(np.linalg.norm(v_in))
        v0 = v_in / nv
        e_before = float(np.vdot(v0, M @ v0).real)
        bd0 = bond_dims(psi.ref, 'mps')
        q0 = (int(psi.ref.qD[0][0]), int(psi.ref.qD[-1][0]))
        realtime = (dt_rel.real == 0.0)
        self.mon_budget = MON_PER_OP
        rp = op.get('rep')
        dt_a, n_a, it_a, tol_a = rep_scalar(dt, rp, 'complex'), rep_scalar(n, None if rp is None else rp + 1, 'int'), rep_scalar(numiter, None if rp is None else rp + 2, 'int'), rep_scalar(tol_split, rp)
        if sites == 1:
            fn = lambda: ptn.integrate_local_singlesite(H.ref, psi.ref, dt_a, n_a, numiter_lanczos=it_a)
        else:
            fn = lambda: ptn.integrate_local_twosite(H.ref, psi.ref, dt_a, n_a, numiter_lanczos=it_a, tol_split=tol_a)
        c08 = realtime and tol_split == 0
        owners = ['C08'] if c08 else []
        cover = (abs(dt_rel) <= 0.5 and numiter >= 12) or numiter >= self.max_local_dim(psi, sites)
        c09 = cover and tol_split == 0 and self.d >= 2
        if c09:
            owners.append('C09')
        st, ret = self.guarded(op, fn, targets=(psi,), operands=(H,), owners=tuple(owners) or ('C02',), hprops={H.uid: ['C08']})
        if st != 'ok':
            psi.traj = None
            return st
        self.resync(psi)
        if psi.retired:
            self.unusable(psi, ['C08', 'C02'], 'TDVP left a state that cannot be contracted')
            return 'ok'
        v1 = psi.dense
        sc = psi.scale
        try:
            ret = float(ret)
        except Exception:
            ret = float('nan')
        self.check(abs(ret - nv) <= TOL * max(nv, sc) * 10, 'C08', 'returns_input_norm', lambda: f'returned {ret!r}, |input|={nv!r}')
        if c08:
            n1 = float(np.linalg.norm(v1))
            self.check(abs(n1 - 1) <= DYN_TOL, 'C08', 'norm_conserved', lambda: f'|psi|={n1!r} after {n} step(s), numiter={numiter}, sites={sites}')
            traj = psi.traj if (psi.traj and psi.traj['H'] == (H.uid, H.version)) else {'H': (H.uid, H.version), 'e0': e_before, 'steps': 0}
            e1 = float(np.vdot(v1, M @ v1).real) / max(n1 ** 2, 1e-300)
            self.check(abs(e1 - traj['e0']) <= DYN_TOL * max(1.0, nH), 'C08', 'energy_conserved',
                       lambda: f'energy {e1!r} vs trajectory start {traj["e0"]!r} (|H|={nH:.3e}, steps so far {traj["steps"] + n}, numiter={numiter}, sites={sites})')
            traj['steps'] += n
            psi.traj = traj
            self.probe('tdvp_realtime_calls')
        else:
            psi.traj = None
        if sites == 1:
            bd1 = bond_dims(psi.ref, 'mps')
            self.check(all(a <= b for a, b in zip(bd1, bd0)), 'C08', 'singlesite_bonds_not_larger', lambda: f'{bd0} -> {bd1}')
        self.check_c02(psi, 'tdvp target')
        if not psi.retired:
            q1 = (int(psi.ref.qD[0][0]), int(psi.ref.qD[-1][0]))
            self.check(q1 == q0, ['C02', 'C08'], 'boundary_charges_kept', lambda: f'boundary charges {q0} -> {q1} under TDVP')
        if c09:
            comp = self.one_sided_complete(psi, v0)
            if comp is None:
                self.skip('c09_rank_gap_unclear')
            elif not comp:
                self.probe('mixed_sector_session')
            else:
                want = sla.expm(-dt * n * M) @ v0
                dev = float(np.linalg.norm(v1 - want))
                nw = float(np.linalg.norm(want))
                # Rounding model: the input is known to eps, and step k adds an error of relative size eps to a state of norm
                # <= |U_k|, which the remaining steps amplify by at most |U_(n-k)|; for Hermitian H these norms multiply to
                # |U| = |exp(-dt n H)|_2 = exp(n max_lambda(-Re(dt) lambda)).  So the error scale is |U| - equal to one for
                # unitary evolution, below one for damped evolution (where an absolute bound would see nothing), and above
                # max(1, |expected|) when the start vector has lost its components along the growing directions.
                ev = self.spectrum(H)
                growth = float(np.exp(min(float(np.max(-dt.real * n * ev)), 600.0)))
                bound = DYN_TOL * max(growth, nw)
                self.check(dev <= bound, 'C09', 'exact_on_complete_manifold',
                           lambda: f'|psi - expm(-dt n H) psi0|={dev:.3e}, |expected|={nw:.3e} (dt_rel={dt_rel!r}, n={n}, sites={sites}, numiter={numiter}, L={self.L}, d={self.d})')
                self.probe('complete_manifold_judged')
        return 'ok'

    def op_tdvp_reverse(self, op):
        ptn = self.ptn
        H, psi = self.pick_H_psi(op)
        if H is None or psi is None:
            return 'skipped'
        nH = self.opnorm2(H)
        if not (1e-3 <= nH <= 1e4):
            return 'skipped'
        dt_rel = cplx(op['dt'])
        if abs(dt_rel) > 0.5:
            dt_rel = dt_rel * 0.5 / abs(dt_rel)
        dt = dt_rel / nH
        n = int(op['n'])
        numiter = max(12, int(op['numiter']))
        v_in = psi.dense.copy()
        v0 = v_in / np.linalg.norm(v_in)
        self.mon_budget = MON_PER_OP
        fr = self.full_rank_representation(psi, v0)
        if fr is not True:
            # DESIGN 7.6b: at a rank-deficient point the fixed-rank manifold is singular; the result depends on
            # the arbitrary completion of the null directions and the scheme is not reversible there
            self.skip('c09_rank_deficient_representation' if fr is False else 'c09_rank_gap_unclear')
            return 'skipped'

        def fn():
            r1 = ptn.integrate_local_singlesite(H.ref, psi.ref, dt, n, numiter_lanczos=numiter)
            r2 = ptn.integrate_local_singlesite(H.ref, psi.ref, -dt, n, numiter_lanczos=numiter)
            return r1, r2
        st, ret = self.guarded(op, fn, targets=(psi,), operands=(H,), owners=('C09',), hprops={H.uid: ['C08']})
        psi.traj = None
        if st != 'ok':
            return st
        self.resync(psi)
        if psi.retired:
            return 'ok'
        r1, r2 = float(ret[0]), float(ret[1])
        # forward errors (relative to the state's norm then) are amplified on the way back by the ratio of the fastest
        # to the slowest rate: exp(|Re dt| n (lambda_max - lambda_min)), never more than exp(2 |Re dt| |H| n)
        # That argument is for linear evolution, i.e. on a complete manifold. On a proper sub-manifold the damped / growing
        # forward run drives the state towards an eigenvector, Schmidt values shrink by the same exponential factors and the
        # way back is conditioned like 1 / (smallest Schmidt value): only the crude bound is used there (a sweep, batch
        # seed 5, session 3450864192902883065, showed a loss of all digits after 99 growing steps of a GHZ-like D = 3 state
        # with the sharper bound: a false alarm of the round-7 tolerance, DESIGN 11.4).
        amp = float(np.exp(2 * abs(dt_rel.real) * n))
        if self.one_sided_complete(psi, v0) is True:
            amp = min(amp, float(np.exp(abs(dt.real) * n * self.spectral_spread(H) + 1.0)))
        dev = float(np.linalg.norm(r2 * psi.dense - v0))
        self.check(dev <= DYN_TOL * amp, 'C09', 'time_reversible', lambda: f'|r2*psi(back) - psi0|={dev:.3e} (dt_rel={dt_rel!r}, n={n}, numiter={numiter}, bonds={bond_dims(psi.ref, "mps")})')
        if dt_rel.real == 0.0:
            self.check(abs(r2 - 1) <= DYN_TOL, 'C09', 'reverse_norm_is_one', lambda: f'second call returned {r2!r}')
        self.check_c02(psi, 'tdvp_reverse target')
        return 'ok'

    # ------------------------------------------------------------------------------------------
    def op_dmrg(self, op):
        ptn = self.ptn
        sites = int(op.get('sites', 1))
        H, psi = self.pick_H_psi(op)
        if H is None or psi is None or self.L < 2 or self.d < 2:
            return 'skipped'
        nH = self.opnorm2(H)
        if not (1e-3 <= nH <= 1e4):
            self.skip('dmrg_H_norm_out_of_class')
            return 'skipped'
        numsweeps = int(op['numsweeps'])
        numiter = max(2, int(op['numiter']))
        tol_split = float(op.get('tol_split', 0.0)) if sites == 2 else 0.0
        M = H.dense
        v_in = psi.dense.copy()
        v0 = v_in / np.linalg.norm(v_in)
        e_start = float(np.vdot(v0, M @ v0).real)
        qtot = int(psi.ref.qD[-1][0]) - int(psi.ref.qD[0][0])
        bq = self.basis_charges(np.asarray(psi.ref.qd))
        idx = np.where(bq == qtot)[0]
        if len(idx) == 0:
            return 'skipped'
        Ms = M[np.ix_(idx, idx)]
        evals, evecs = np.linalg.eigh((Ms + Ms.conj().T) / 2)
        lam0 = float(evals[0])
        q0 = (int(psi.ref.qD[0][0]), int(psi.ref.qD[-1][0]))
        self.mon_budget = MON_PER_OP
        complete = self.one_sided_complete(psi, v0)
        locdim = self.max_local_dim(psi, sites)
        rp = op.get('rep')
        ns_a, it_a, tol_a = rep_scalar(numsweeps, rp, 'int'), rep_scalar(numiter, None if rp is None else rp + 1, 'int'), rep_scalar(tol_split, rp)
        if sites == 1:
            fn = lambda: ptn.calculate_ground_state_local_singlesite(H.ref, psi.ref, ns_a, numiter_lanczos=it_a)
        else:
            fn = lambda: ptn.calculate_ground_state_local_twosite(H.ref, psi.ref, ns_a, numiter_lanczos=it_a, tol_split=tol_a)
        st, E = self.guarded(op, fn, targets=(psi,), operands=(H,), owners=('C10',), hprops={H.uid: ['C10']})
        psi.traj = None
        if st != 'ok':
            return st
        self.resync(psi)
        P = 'C10'
        if psi.retired:
            self.unusable(psi, [P, 'C02'], 'DMRG left a state that cannot be contracted')
            return 'ok'
        E = np.asarray(E, dtype=float)
        if not self.check(E.shape == (numsweeps,) and np.all(np.isfinite(E)), P, 'energies_shape', lambda: f'returned {E!r}'):
            return 'ok'
        tolE = DYN_TOL * max(1.0, nH)
        v1 = psi.dense
        n1 = float(np.linalg.norm(v1))
        self.check(abs(n1 - 1) <= DYN_TOL, P, 'unit_norm', lambda: f'|psi|={n1!r}')
        self.check(E.min() >= lam0 - tolE, P, 'variational', lambda: f'min reported energy {E.min()!r} < sector ground energy {lam0!r}')
        exact = (tol_split == 0)
        if exact:
            e1 = float(np.vdot(v1, M @ v1).real) / max(n1 ** 2, 1e-300)
            self.check(abs(e1 - E[-1]) <= tolE, P, 'energy_consistent', lambda: f'<psi|H|psi>={e1!r} vs last reported {E[-1]!r} (sites={sites}, numiter={numiter}, sweeps={numsweeps})')
            self.check(E.max() <= e_start + tolE, P, 'below_start', lambda: f'max reported {E.max()!r} > start energy {e_start!r}')
            self.check(np.all(np.diff(E) <= tolE), P, 'monotone', lambda: f'energies {E.tolist()}')
            product_op = all(b == 1 for b in bond_dims(H.ref, 'mpo')) or self.product_like(H)
            if product_op and complete is True:
                # for a product operator h_1 x ... x h_L the first local optimisation makes the state an exact product
                # eigenvector at that site, which can be exactly orthogonal to the ground state: the sweep then stays in
                # that invariant subspace for ever (observed: converges to the second eigenvalue). Not a theorem there.
                self.skip('dmrg_exact_clause_not_judged_for_product_operator')
                self.probe('product_plus_identity_operator' if not all(b == 1 for b in bond_dims(H.ref, 'mpo')) else 'product_operator')
            elif complete is True and numsweeps >= 2 and locdim <= 32 and numiter >= 2 * locdim:
                gs = evecs[:, np.abs(evals - lam0) <= 1e-9 * max(1.0, nH)]
                ov = float(np.linalg.norm(gs.conj().T @ v0[idx]))
                resid = float(np.linalg.norm(M @ v1 - e1 * v1))
                if ov >= 1e-3 and resid <= 1e-10 * nH and abs(E[-1] - lam0) > 1e-8 * max(1.0, nH):
                    # The sweep sits on an exact excited eigenvector: a local optimisation has produced a state exactly
                    # orthogonal to the ground space (product operators, operators with a decoupled basis state, ...), and a
                    # Krylov space started from an exact eigenvector never leaves it.  Inherent to the local method, not a
                    # theorem of C10 there (DESIGN 11.3); the local eigensolver itself is judged by the monitors (mon_eigh).
                    self.skip('dmrg_trapped_on_exact_excited_eigenvector')
                elif ov >= 1e-3:
                    self.check(abs(E[-1] - lam0) <= 1e-8 * max(1.0, nH), P, 'exact_ground_state',
                               lambda: f'complete manifold: E={E[-1]!r} vs exact {lam0!r} (overlap {ov:.2e}, locdim {locdim}, numiter {numiter}, residual {resid:.2e})')
                    self.probe('dmrg_exact_judged')
                else:
                    self.skip('dmrg_start_orthogonal_to_ground_space')
            elif complete is False:
                self.probe('mixed_sector_session')
        self.check_c02(psi, 'dmrg target')
        if not psi.retired:
            q1 = (int(psi.ref.qD[0][0]), int(psi.ref.qD[-1][0]))
            self.check(q1 == q0, ['C02', 'C10'], 'boundary_charges_kept', lambda: f'boundary charges {q0} -> {q1} under DMRG')
        return 'ok'

    # ============================ call-boundary monitors ====================================
    def install_monitors(self):
        m = self.env.monitors
        m['qr'] = self.mon_qr
        m['split_matrix_svd'] = self.mon_split
        m['retained_bond_indices'] = self.mon_retained
        m['lanczos_iteration'] = self.mon_lanczos
        m['expm_krylov'] = self.mon_expm
        m['eigh_krylov'] = self.mon_eigh
        self.mon_budget = MON_PER_OP
        self.last_split = None
        self.last_lanczos = None
        self._dense_cache = None

    def mon_qr(self, real, args, kwargs):
        A, q0, q1 = args[0], args[1], args[2]
        Ab = np.asarray(A).tobytes()
        q0b = np.asarray(q0).tobytes()
        q1b = np.asarray(q1).tobytes()
        out = real(*args, **kwargs)
        P = 'C11'
        A = np.asarray(A)
        if not np.issubdtype(A.dtype, np.inexact):
            self.skip('qr_integer_input_outside_C11')
            return out
        try:
            Q, R, qi = out
            Q = np.asarray(Q)
            R = np.asarray(R)
        except Exception:
            self.check(False, P, 'returns_triple', f'{type(out).__name__}')
            return out
        q0a = np.asarray(q0, dtype=np.int64)
        q1a = np.asarray(q1, dtype=np.int64)
        m_, n_ = A.shape
        k = Q.shape[1] if Q.ndim == 2 else -1
        okshape = Q.ndim == 2 and R.ndim == 2 and Q.shape[0] == m_ and R.shape == (k, n_) and len(qi) == k and k >= 1
        if not self.check(okshape, P, 'shapes', lambda: f'A{A.shape} Q{Q.shape} R{R.shape} len(qi)={len(qi)}'):
            return out
        nA = dn.safe_norm(A)
        if not (np.all(np.isfinite(Q)) and np.all(np.isfinite(R))):
            self.check(False, P, 'finite', lambda: f'non-finite factors for a finite matrix (|A|={nA:.3e}, shape {A.shape})')
            return out
        with np.errstate(all='ignore'):
            # scale-safe residual: (Q R - A) / |A| evaluated without forming squares of extreme magnitudes
            sc_ = nA if nA > 0 else 1.0
            dev = dn.safe_norm(Q @ (R / sc_) - A / sc_)
        pf = 2.0 ** 29 if A.dtype.type in (np.float32, np.complex64) else 1.0      # eps(single) / eps(double)
        self.check(dev <= 1e-13 * pf * max(1, min(m_, n_)) if nA > 0 else dev == 0, P, 'product', lambda: f'|QR - A|/|A|={dev:.3e} |A|={nA:.3e} shape {A.shape}')
        self.check(dn.isometry_defect(Q) <= 1e-12 * pf, P, 'isometric', lambda: f'|Q^H Q - 1|={dn.isometry_defect(Q):.3e} shape {Q.shape}')
        qia = np.asarray(qi, dtype=np.int64)
        offQ = np.abs(Q[np.not_equal.outer(q0a, qia)]).max(initial=0.0)
        offR = np.abs(R[np.not_equal.outer(qia, q1a)]).max(initial=0.0)
        self.check(offQ == 0 and offR == 0, P, 'block_sparse', lambda: f'off-support |Q|={offQ!r} |R|={offR!r}')
        shared = np.intersect1d(q0a, q1a)
        if len(shared) == 0:
            self.probe('qr_disjoint_branch')
            self.check(k == 1 and not R.any(), P, 'disjoint_dummy', lambda: f'k={k}, |R|={np.abs(R).max(initial=0)!r}')
        else:
            self.check(k <= min(m_, n_), P, 'interm_dim_bound', lambda: f'k={k} > min{A.shape}')
            s0 = bool(np.all(np.diff(q0a) >= 0))
            s1 = bool(np.all(np.diff(q1a) >= 0))
            self.probe('qr_sorted_both' if (s0 and s1) else 'qr_unsorted')
            if n_ > m_:
                self.probe('qr_block_wide')
        same = (np.asarray(args[0]).tobytes() == Ab and np.asarray(q0).tobytes() == q0b and np.asarray(q1).tobytes() == q1b)
        self.check(same, [P, 'C19'], 'inputs_unmodified', 'qr modified its input matrix or charge vectors')
        return out

    def mon_retained(self, real, args, kwargs):
        s, tol = args[0], args[1]
        s_in = np.array(s, dtype=float, copy=True)
        sb = np.asarray(s).tobytes()
        idx = real(*args, **kwargs)
        P = 'C12'
        self.check(np.asarray(s).tobytes() == sb, [P, 'C19'], 'retained_input_unmodified', 'retained_bond_indices modified its input')
        idx = np.asarray(idx)
        w2 = float(np.sum(s_in ** 2))
        if w2 == 0:
            self.check(len(idx) == 0, P, 'retained_zero', 'zero spectrum must retain nothing')
            return idx
        okidx = idx.ndim == 1 and (len(idx) == 0 or (np.issubdtype(idx.dtype, np.integer) and idx.min() >= 0 and idx.max() < len(s_in))) and len(set(idx.tolist())) == len(idx)
        if not self.check(okidx, P, 'retained_indices_valid', lambda: f'{idx!r}'):
            return idx
        keep = np.zeros(len(s_in), dtype=bool)
        keep[idx] = True
        wrel = (s_in / np.sqrt(w2)) ** 2
        disc = float(wrel[~keep].sum())
        self.check(disc <= tol + 1e-12, P, 'discarded_within_tol', lambda: f'discarded weight {disc!r} > tol {tol!r}')
        if keep.any() and (~keep).any():
            self.check(s_in[keep].min() >= s_in[~keep].max() * (1 - 1e-12), P, 'smallest_discarded', lambda: f'kept {s_in[keep].min()!r} < discarded {s_in[~keep].max()!r}')
            self.probe('svd_truncated')
        if keep.any():
            nxt = disc + float(wrel[keep].min())
            guard = 1e-9 * max(tol, 1e-3)
            if abs(nxt - tol) <= guard:
                self.skip('guard_band_maximality')
                self.probe('svd_tie_at_cut')
            else:
                self.check(nxt > tol, P, 'maximal_truncation', lambda: f'could discard one more: {nxt!r} <= tol {tol!r}')
        else:
            self.check(False, P, 'keeps_at_least_one', f'non-zero spectrum but nothing retained (tol={tol!r})')
        return idx

    def mon_split(self, real, args, kwargs):
        A, q0, q1, tol = args[0], args[1], args[2], args[3]
        Ab = np.asarray(A).tobytes()
        out = real(*args, **kwargs)
        P = 'C12'
        A = np.asarray(A)
        self.check(np.asarray(args[0]).tobytes() == Ab, [P, 'C19'], 'input_unmodified', 'split_matrix_svd modified its input matrix')
        try:
            u, s, v, q = out
            u, s, v = np.asarray(u), np.asarray(s), np.asarray(v)
        except Exception:
            self.check(False, P, 'returns_quadruple', f'{type(out).__name__}')
            return out
        self.last_split = (u.copy(), s.copy(), v.copy(), q)
        nA = float(np.linalg.norm(A))
        k = len(s)
        okshape = u.ndim == 2 and v.ndim == 2 and u.shape == (A.shape[0], k) and v.shape == (k, A.shape[1]) and len(q) == k
        if not self.check(okshape, P, 'shapes', lambda: f'A{A.shape} u{u.shape} s{s.shape} v{v.shape} len(q)={len(q)}'):
            return out
        if nA == 0:
            self.probe('svd_zero_matrix')
            self.check(not ((u * s) @ v).any(), P, 'zero_matrix_product', 'product of the factors of the zero matrix is not zero')
            return out
        self.check(k >= 1 and np.all(s > 0), P, 'positive_singular_values', lambda: f's={s!r}')
        if k < 1:
            return out
        self.check(dn.isometry_defect(u) <= 1e-12 and dn.isometry_defect(v.conj().T) <= 1e-12, P, 'isometric',
                   lambda: f'|u^H u - 1|={dn.isometry_defect(u):.3e} |v v^H - 1|={dn.isometry_defect(v.conj().T):.3e}')
        q0a, q1a, qa = np.asarray(q0, dtype=np.int64), np.asarray(q1, dtype=np.int64), np.asarray(q, dtype=np.int64)
        offu = np.abs(u[np.not_equal.outer(q0a, qa)]).max(initial=0.0)
        offv = np.abs(v[np.not_equal.outer(qa, q1a)]).max(initial=0.0)
        self.check(offu == 0 and offv == 0, P, 'block_sparse', lambda: f'off-support |u|={offu!r} |v|={offv!r}')
        sig = np.linalg.svd(A, compute_uv=False)
        w = nA ** 2 - float(np.sum(s ** 2))
        err2 = float(np.linalg.norm((u * s) @ v - A) ** 2)
        self.check(abs(err2 - w) <= 1e-12 * nA ** 2, P, 'error_is_discarded_weight', lambda: f'|usv - A|^2={err2!r} vs discarded weight {w!r} (|A|^2={nA**2!r})')
        self.check(w / nA ** 2 <= tol + 1e-12, P, 'discarded_within_tol', lambda: f'discarded {w/nA**2!r} > tol {tol!r}')
        top = np.sort(sig)[::-1][:k]
        self.check(k <= len(sig) and np.abs(np.sort(s)[::-1] - top).max() <= 1e-12 * sig[0], P, 'keeps_largest',
                   lambda: f'kept {np.sort(s)[::-1]!r} vs largest {top!r}')
        if tol == 0:
            self.check(err2 <= 1e-24 * nA ** 2, P, 'tol0_reproduces', lambda: f'|usv - A|^2={err2!r}')
        if k < len(sig) and sig[k] > 1e-14 * sig[0]:
            self.probe('split_truncated')
        if np.sum(sig > 1e-12 * sig[0]) < min(A.shape):
            self.probe('svd_rank_deficient')
        if len(np.intersect1d(q0a, q1a)) == 0:
            self.probe('svd_disjoint_branch')
        return out

    # ---- Krylov monitors ---------------------------------------------------------------------
    def dense_map(self, Afunc, n):
        if self._dense_cache is not None and self._dense_cache[0] is Afunc:
            return self._dense_cache[1]
        A = np.zeros((n, n), dtype=complex)
        for k in range(n):
            e = np.zeros(n, dtype=complex)
            e[k] = 1
            A[:, k] = np.asarray(Afunc(e)).reshape(-1)
        self._dense_cache = (Afunc, A)
        return A

    def _mon_prep(self, Afunc, v, m, need_herm=True):
        """-> (A, cls, K, normA, Q) or None when this call is not judged."""
        n = len(v)
        if n > MON_NMAX or self.mon_budget <= 0:
            self.skip('krylov_monitor_not_sampled')
            return None
        A = self.dense_map(Afunc, n)
        normA = float(np.linalg.norm(A, 2))
        if not (1e-2 <= normA <= 1e3):
            self.skip('krylov_map_norm_out_of_class')
            return None
        if need_herm and np.abs(A - A.conj().T).max() > 1e-10 * normA:
            self.skip('krylov_map_not_hermitian')
            return None
        cls, K, normA, Q = ko.classify(A, np.asarray(v, dtype=complex), m)
        if cls == 'grey':
            self.skip('krylov_grey_zone')
        self.probe('krylov_' + cls)
        return A, cls, K, normA, Q

    def mon_lanczos(self, real, args, kwargs):
        Afunc, vstart, numiter = args[0], args[1], args[2]
        v = np.array(vstart, dtype=complex)
        out = real(*args, **kwargs)
        self.last_lanczos = (len(out[0]), None, None)
        self.env.in_monitor += 1
        try:
            prep = self._mon_prep(Afunc, v, numiter)
            if prep is not None:
                A, cls, K, normA, Q = prep
                self.last_lanczos = (len(out[0]), cls, K)
                if numiter == 1:
                    self.probe('krylov_m_eq_1')
                if numiter > len(v):
                    self.probe('lanczos_m_gt_n')
                if cls != 'grey':
                    self.mon_budget -= 1
                    if ko.orth_horizon(A, Q, normA) < min(numiter, Q.shape[1]):
                        self.probe('lanczos_ritz_converged_before_end')
                    fails = ko.check_lanczos(A, v, numiter, out, cls, K, normA)
                    self.judged[('C14', 'lanczos_relations')] += 1
                    for clause, detail in fails:
                        self.viol('C14', 'lanczos_' + clause, f'n={len(v)} m={numiter} class={cls}: {detail}')
        finally:
            self.env.in_monitor -= 1
        return out

    def mon_expm(self, real, args, kwargs):
        Afunc, v, dt, numiter = args[0], args[1], args[2], args[3]
        hermitian = kwargs.get('hermitian', args[4] if len(args) > 4 else False)
        v0 = np.array(v, dtype=complex)
        self._dense_cache = None
        out = real(*args, **kwargs)
        self.env.in_monitor += 1
        try:
            if float(np.linalg.norm(v0)) > 0:
                prep = self._mon_prep(Afunc, v0, numiter, need_herm=bool(hermitian))
                if prep is not None and prep[1] != 'grey':
                    A, cls, K, normA, Q = prep
                    fails = ko.check_expm_krylov(A, v0, dt, numiter, bool(hermitian), out, cls, K, normA)
                    self.judged[('C15', 'expm_krylov')] += 1
                    for clause, detail in fails:
                        self.viol('C15', clause, f'n={len(v0)} m={numiter} class={cls}: {detail}')
        finally:
            self.env.in_monitor -= 1
            self._dense_cache = None
        return out

    def mon_eigh(self, real, args, kwargs):
        Afunc, v, numiter, numeig = args[0], args[1], args[2], args[3]
        v0 = np.array(v, dtype=complex)
        self._dense_cache = None
        self.last_lanczos = None
        out = real(*args, **kwargs)
        self.env.in_monitor += 1
        try:
            prep = self._mon_prep(Afunc, v0, numiter)
            if prep is not None and (prep[1] != 'grey' or ko.full_space_judgeable(prep[0], v0, numiter, prep[3])):
                A, cls, K, normA, Q = prep
                kret = self.last_lanczos[0] if self.last_lanczos else None
                fails = ko.check_eigh_krylov(A, v0, numiter, numeig, out, cls, K, normA, Q, kret=kret)
                self.judged[('C15', 'eigh_krylov')] += 1
                for clause, detail in fails:
                    # C10 rests on the local eigensolver returning the lowest reachable Ritz pair, not above the Rayleigh quotient
                    props = ['C15', 'C10'] if clause in ('ritz_exact', 'ritz_upper', 'ritz_exact_full_space') else 'C15'
                    self.viol(props, clause, f'n={len(v0)} m={numiter} class={cls}: {detail}')
        finally:
            self.env.in_monitor -= 1
            self._dense_cache = None
        return out


class TNSession(TNDyn):
    pass
