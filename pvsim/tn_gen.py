"""
Generator of TN-world sessions: a pure function seed -> (config, op list).  Never touches pytenet.
Object references are selector integers resolved by the executor against the live pool
(candidates[sel % len(candidates)]), every op carries its own sub-seeds, so any sub-list of an op
list is again an executable op list (DESIGN.md 4.2).
"""
from .prng import Rng, mix, gen_globals

Q16 = 1 << 16

FERMI_QD = [0, Q16 - 1, Q16 + 1, 2 * Q16]

GAUGE_KINDS = ['QRSIGN', 'SVDPHASE', 'SVDROT', 'TIEORDER', 'EIGSIGN', 'ULP']


def _free_qd(rng: Rng, d: int):
    style = rng.pick(['zero', 'range', 'unsorted', 'repeated', 'large', 'const'])
    if style == 'zero':
        return [0] * d
    if style == 'range':
        return list(range(d))
    if style == 'unsorted':
        q = [rng.randrange(-2, 3) for _ in range(d)]
        return q
    if style == 'repeated':
        q = [rng.randrange(0, 2) for _ in range(d)]
        return q
    if style == 'large':
        base = rng.pick([-70000, 65536, 1 << 20, -(1 << 17), 1 << 58, -(1 << 57), 10 ** 17])
        return [base * rng.randrange(-1, 2) + rng.randrange(-1, 2) for _ in range(d)]
    return [rng.randrange(-3, 4)] * d


def pick_family(rng: Rng, tier: str, want_ham: bool, profile: str):
    cap = 256 if (tier == 'quick' and profile != 'C20') else 1024
    fams = [('zero', 3), ('xxz', 3), ('spin1', 2), ('bose', 2), ('fermi', 1.5), ('mol', 1.5), ('ising', 1.5)]
    if not want_ham:
        fams += [('free', 4), ('d1', 0.7)]
    fam = rng.wpick(fams)
    if fam == 'zero':
        d = rng.pick([2, 2, 3, 4])
        qd = [0] * d
    elif fam == 'xxz':
        d, qd = 2, [1, -1]
    elif fam == 'spin1':
        d, qd = 3, [1, 0, -1]
    elif fam == 'bose':
        d = rng.pick([2, 3, 3, 4])
        qd = list(range(d))
    elif fam == 'fermi':
        d, qd = 4, list(FERMI_QD)
    elif fam == 'mol':
        d, qd = 2, [0, 1]
    elif fam == 'ising':
        d, qd = 2, [0, 0]
    elif fam == 'free':
        d = rng.pick([1, 2, 2, 2, 3, 3, 4])
        qd = _free_qd(rng, d)
    else:
        d = 1
        qd = [rng.randrange(-2, 3)]
    # site count under the dense cap
    Lmax = 1
    while d > 1 and d ** (Lmax + 1) <= cap and Lmax < (10 if profile == 'C20' else 8):
        Lmax += 1
    if d == 1:
        Lmax = 6 if rng.chance(0.5) else 48      # long chains are only within dense reach for d = 1
    heavy = profile in ('C08', 'C09', 'C10')
    if heavy:
        Lmax = min(Lmax, 5 if tier == 'quick' else 6)
    Lmin = 1
    if profile == 'C10':
        Lmin = 2
    L = rng.randrange(Lmin, Lmax + 1)
    if max(abs(x) for x in qd) * (L + 3) >= 2 ** 62:
        L = min(L, 6)        # bond charges are sums of up to L physical charges and must stay int64
    if rng.chance(0.5) and Lmax <= 10:
        L = max(Lmin, min(Lmax, rng.pick([2, 3, 3, 4, 4, 5])))
    return fam, d, qd, L


def left_sets(qd, L, q0=0):
    """Multisets (dict charge -> multiplicity) of charges reachable at each bond from the left."""
    sets = [{q0: 1}]
    for _ in range(L):
        nxt = {}
        for a, m in sets[-1].items():
            for p in qd:
                nxt[a + p] = nxt.get(a + p, 0) + m
        sets.append(nxt)
    return sets


def right_sets(qd, L, qtot):
    sets = [{qtot: 1}]
    for _ in range(L):
        prv = {}
        for b, m in sets[0].items():
            for p in qd:
                prv[b - p] = prv.get(b - p, 0) + m
        sets.insert(0, prv)
    return sets


def _fat_dim(rng: Rng, fat):
    return rng.pick([1, 2, 3, max(1, fat // 8), max(1, fat // 4), fat // 2 + 1, fat, fat])


def gen_mps_qD(rng: Rng, qd, L, Dmax, style, q0=0, qtot=None, fat=None):
    """Returns (qD lists, qtot, style)."""
    ls = left_sets(qd, L, q0)
    if qtot is None:
        keys = sorted(ls[L].keys())
        # bias towards heavily populated (central) sectors
        tab = [(k, float(ls[L][k]) ** 0.5) for k in keys]
        qtot = rng.wpick(tab)
    rs = right_sets(qd, L, qtot)
    qD = [[q0]]
    for i in range(1, L):
        valid = sorted(set(ls[i]) & set(rs[i]))
        if style == 'full':
            cur = []
            for c in valid:
                cur += [c] * min(ls[i][c], rs[i][c])
        elif style == 'leftfull':
            cur = []
            for c in valid:
                cur += [c] * ls[i][c]
        elif style == 'valid' and valid:
            D = rng.randrange(1, Dmax + 1) if not fat else _fat_dim(rng, fat)
            if fat and rng.chance(0.5):
                valid = [rng.pick(valid) for _ in range(rng.randrange(1, 3))]      # one or two sectors: large blocks
            cur = [rng.pick(valid) for _ in range(D)]
            how = rng.randrange(3)
            if how == 0:
                cur.sort()
            elif how == 1:
                cur.sort(reverse=True)
        elif style == 'random' or not valid:
            D = rng.randrange(1, Dmax + 1) if not fat else _fat_dim(rng, fat)
            lo = min(qd) * i + q0 - 1
            hi = max(qd) * i + q0 + 1
            cur = [rng.randrange(lo, hi + 1) for _ in range(D)]
        elif style == 'disjoint':
            D = rng.randrange(1, Dmax + 1)
            off = (max(abs(x) for x in qd) + 1) * (L + 2)
            if off > 2 ** 40:
                off = 12345     # keeps int64 labels; small offsets are unreachable from huge charges plus small parts
            cur = [q0 + off + rng.randrange(0, 2) for _ in range(D)]
        else:
            cur = [0] * rng.randrange(1, Dmax + 1)
        qD.append(cur)
    qD.append([qtot])
    return qD, qtot


def gen_mpo_qD(rng: Rng, qd, L, Dmax, shift=0, zero=False, q0=0):
    diffs = sorted(set(a - b for a in qd for b in qd) | {0})
    qD = [[q0]]
    for _ in range(1, L):
        D = rng.randrange(1, Dmax + 1)
        if zero:
            qD.append([0] * D)
        else:
            qD.append([q0 + rng.pick(diffs) for _ in range(D)])
    qD.append([q0 + shift])
    return qD


# ------------------------------------------------------------------------------------------------
# profiles: op weights of the session body
# ------------------------------------------------------------------------------------------------

def _w(**kw):
    return kw


BODY = {
    'C01': _w(share_copy=0.6, new_mps=3, new_mpo=2, orthonormalize=10, edit=3, add=2, sub=1, apply=1.5, matmul=0.7, compress=1,
              as_vector=0.5, as_matrix=0.3, deepcopy=0.5, norm=0.3, zero_qnumbers=0.3, identity=0.3),
    'C02': _w(share_copy=0.6, kernel=0.5, new_mps=2, new_mpo=1, ham=1.2, herm_mpo=0.6, identity=0.4, from_vector=0.8, orthonormalize=2.5, compress=2.5,
              add=2, sub=1.5, matmul=1, apply=2, split_merge=2, tdvp=1.5, dmrg=1, edit=0.7, deepcopy=0.4,
              zero_qnumbers=0.4, vdot=0.3),
    'C03': _w(new_mps=2.5, new_mpo=2.5, identity=1.2, add=4, sub=3, matmul=3, apply=3.5, as_vector=2, as_matrix=2.5,
              from_vector=2, split_merge=3, orthonormalize=0.7, edit=0.7, deepcopy=0.3, ham=0.5),
    'C04': _w(new_mps=3, new_mpo=2, ham=1, herm_mpo=1, vdot=4, norm=2, op_avg=3, op_inner=3, op_density=2.5, env_blocks=5,
              orthonormalize=1.5, compress=1, add=1, apply=1, tdvp=0.5, dmrg=0.3, edit=0.7, matmul=0.4),
    'C08': _w(shift_H=0.6, identity=0.3, add=0.4, scale_H_inplace=1.2, share_copy=0.3, tdvp=10, orthonormalize=0.8, deepcopy=0.5, norm=0.5, op_avg=0.7, new_mps=1, as_vector=0.3, vdot=0.3, edit=1.2, compress=0.3),
    'C09': _w(shift_H=1.0, identity=0.3, add=0.4, scale_H_inplace=0.8, share_copy=0.3, tdvp=6, tdvp_reverse=4, new_mps=1.2, deepcopy=0.4, orthonormalize=0.5, op_avg=0.3, edit=0.8),
    'C10': _w(shift_H=0.6, identity=0.3, add=0.4, scale_H_inplace=1.0, share_copy=0.3, dmrg=10, orthonormalize=0.6, deepcopy=0.5, new_mps=1.2, op_avg=0.6, norm=0.3, tdvp=0.3, edit=1.0, compress=0.3),
    'C11': _w(share_copy=0.6, kernel=5, zero_qnumbers=0.5, new_mps=4, new_mpo=2, orthonormalize=9, edit=3, add=1.5, apply=1, tdvp=1.2, dmrg=0.8, compress=0.5,
              deepcopy=0.3, ham=0.4, herm_mpo=0.3),
    'C12': _w(share_copy=0.6, kernel=5, zero_qnumbers=0.5, deepcopy=0.4, new_mps=3.5, split_merge=7, compress=5, from_vector=2.5, add=2.5, sub=1, apply=1, tdvp=1.2, dmrg=0.8,
              edit=2, orthonormalize=0.7, ham=0.4, herm_mpo=0.3),
    'C13': _w(share_copy=0.6, new_mps=3, compress=9, from_vector=4, add=3, sub=1.5, apply=1.5, tdvp=0.8, edit=1.5, orthonormalize=0.7,
              deepcopy=0.4, ham=0.4, new_mpo=0.5, herm_mpo=0.2),
    'C14': _w(shift_H=0.3, scale_H_inplace=0.3, tdvp=5, dmrg=5, new_mps=1, orthonormalize=0.3, tdvp_reverse=0.5),
    'C15': _w(shift_H=0.3, scale_H_inplace=0.3, tdvp=5, dmrg=5, new_mps=1, orthonormalize=0.3, tdvp_reverse=0.5),
    'C19': _w(share_copy=0.6, kernel=1, new_mps=2, new_mpo=1.5, ham=0.8, herm_mpo=0.6, identity=0.5, from_vector=1, orthonormalize=2, compress=2,
              add=3, sub=2, matmul=1.5, apply=3, split_merge=1, tdvp=1.2, dmrg=1, edit=1.5, deepcopy=1, zero_qnumbers=0.8,
              vdot=1, norm=0.5, op_avg=1, op_inner=1, op_density=0.7, as_vector=1, as_matrix=1, env_blocks=0.7),
    'C20': _w(ham=10, new_mps=0.5, orthonormalize=0.5, op_avg=0.3),
}
BODY['MIX'] = BODY['C19']

NEEDS_HAM = {'C08', 'C09', 'C10', 'C14', 'C15', 'C20'}

DYADIC_TOLS = [0.0, 0.0, 0.5, 0.25, 0.125, 0.0625, 0.03125, 1.0 / 64, 1.0 / 256, 1e-3, 1e-6, 1e-12, 0.3, 0.05]
NUMITERS_TDVP = [1, 2, 3, 5, 10, 25, 40]
NUMITERS_DMRG = [2, 3, 4, 6, 10, 25, 50]


def gen_ham_op(rng: Rng, cfg, generic=False):
    op = _gen_ham_op(rng, cfg, generic)
    op['generic'] = bool(generic)
    return op


def _gen_ham_op(rng: Rng, cfg, generic=False):
    fam, L, d = cfg['family'], cfg['L'], cfg['d']

    def par(zero_ok=True):
        if generic:
            return rng.pick([-1, 1]) * rng.uniform(0.2, 2.0)
        return rng.pick([0.0, 1.0, -1.0, 0.5, rng.uniform(-2, 2), rng.uniform(-2, 2), rng.uniform(-2, 2)]) if zero_ok \
            else rng.pick([1.0, -1.0, rng.uniform(0.2, 2), -rng.uniform(0.2, 2)])

    if fam == 'xxz':
        p = [par(), par(), par()]
        if not any(p):
            p[0] = 1.0
        return {'op': 'ham', 'model': 'xxz', 'params': p}
    if fam == 'spin1':
        p = [par(), par(), par()]
        if not any(p):
            p[1] = 0.5
        return {'op': 'ham', 'model': 'spin1', 'params': p}
    if fam == 'bose':
        p = [par(), par(), par()]
        if d == 1 or not any(p):
            p[2] = 1.0
        return {'op': 'ham', 'model': 'bose', 'params': p}
    if fam == 'fermi':
        which = rng.wpick([('fermi', 3), ('spinmol', 1 if L <= 3 else 0), ('spinmol_explicit', 0.7 if 2 <= L <= 3 else 0)])
        if which == 'fermi':
            p = [par(), par(), par()]
            if not any(p):
                p[1] = 1.0
            return {'op': 'ham', 'model': 'fermi', 'params': p}
        return {'op': 'ham', 'model': which, 'sub': rng.sub(), 'structure': rng.pick(['dense', 'sym', 'sparse'] if not generic else ['dense', 'sym'])}
    if fam == 'ising':
        p = [par(), par(), par()]
        if not any(p):
            p[2] = 1.0
        return {'op': 'ham', 'model': 'ising', 'params': p}
    if fam == 'mol':
        which = rng.wpick([('mol', 3), ('mol_explicit', 1.5 if L >= 4 else 0), ('linferm', 1.0 if not generic else 0)])
        if which == 'linferm':
            return {'op': 'ham', 'model': 'linferm', 'sub': rng.sub(), 'ftype': rng.pick(['c', 'a'])}
        return {'op': 'ham', 'model': which, 'sub': rng.sub(), 'structure': rng.pick(['dense', 'sym', 'sparse'] if not generic else ['dense', 'sym'])}
    # zero / free / d1: no built-in model -> random Hermitian MPO
    return {'op': 'herm_mpo', 'qD': gen_mpo_qD(rng, cfg['qd'], L, min(cfg['Dmax'], 3)), 'sub': rng.sub(),
            'entries': rng.pick(['complex', 'complex', 'real']), 'product': rng.chance(0.25)}


def gen_new_mps(rng: Rng, cfg, style=None, qtot=None):
    qd, L = cfg['qd'], cfg['L']
    allzero = not any(qd)
    if style is None:
        if allzero:
            style = rng.wpick([('zeroq', 6), ('random', 1), ('maxzero', 1.5), ('ghz', 1.5)])
        else:
            style = rng.wpick([('valid', 6), ('full', 1.5), ('random', 1.5), ('disjoint', 0.5), ('leftfull', 0.3)])
    Dmax = cfg['Dmax']
    fat = None
    if cfg.get('fat') and style in ('valid', 'zeroq', 'random') and rng.chance(0.5):
        # few sites, very large and very uneven bond dimensions (large blocks per sector, strongly rectangular matrices)
        fat = cfg['fat']
    if style == 'ghz':
        d = cfg['d']
        qD = [[0]] + [[0] * d for _ in range(L - 1)] + [[0]]
        qt = 0
        op = {'op': 'new_mps', 'qD': qD, 'style': 'ghz', 'fill': 'scalar', 'value': 1.0, 'sub': rng.sub(), 'entries': 'asis',
              'weights': [[rng.pick([1.0, 1.0, 0.5, 0.5, 0.25, 2.0]) for _ in range(d)] for _ in range(max(L, 1))]}
        return op
    if style == 'maxzero':
        d = cfg['d']
        qD = [[0] * min(d ** i, d ** (L - i), 16) for i in range(L + 1)]
        qt = 0
    elif style == 'zeroq':
        qD = [[0]] + [[0] * (rng.randrange(1, Dmax + 1) if not fat else _fat_dim(rng, fat)) for _ in range(L - 1)] + [[0]]
        if L == 0:
            qD = [[0]]
        qt = 0
    else:
        if style in ('full', 'leftfull') and cfg['d'] ** L > 256 and style == 'leftfull':
            style = 'full'
        q0 = 0 if rng.chance(0.8) else rng.randrange(-2, 3)
        qD, qt = gen_mps_qD(rng, qd, L, Dmax, style, q0=q0, qtot=qtot, fat=fat)
    fill = rng.wpick([('rng', 8), ('env', 1), ('scalar', 1)])
    lowp = cfg['profile'] not in ('C08', 'C09', 'C10', 'C14', 'C15', 'C20')
    op = {'op': 'new_mps', 'qD': qD, 'style': style, 'fill': fill, 'sub': rng.sub(),
          'entries': rng.wpick([('complex', 6), ('real', 2), ('int', 1), ('dyadic', 1), ('single', 0.5 if lowp else 0), ('singlereal', 0.25 if lowp else 0),
                                ('long', 0.25 if lowp else 0)])}
    if fill == 'scalar':
        op['value'] = rng.pick([1.0, 1, 0.5, [0.5, -0.25], 2, -1.5, 0.0])
        op['entries'] = 'asis'
    return op


def gen_session(prop: str, tier: str, seed: int) -> dict:
    rng = Rng(mix(seed, 'tn-gen'))
    profile = prop if prop in BODY else 'MIX'
    want_ham = profile in NEEDS_HAM
    fam, d, qd, L = pick_family(rng, tier, want_ham, profile)
    if profile in ('C08', 'C09', 'C10') and rng.chance(0.12):
        # random Hermitian MPOs with arbitrary charges as Hamiltonian
        fam2 = rng.pick(['free', 'zero'])
        if fam2 == 'free':
            d = rng.pick([2, 2, 3])
            qd = _free_qd(rng, d)
        else:
            d = rng.pick([2, 3])
            qd = [0] * d
        fam = fam2
        L = rng.randrange(2 if profile == 'C10' else 1, 5)
    if profile == 'C10' and d == 1:
        d, qd, fam = 2, [0, 0], 'zero'
    Dmax = rng.pick([1, 2, 2, 3, 3, 4, 4, 6, 8])
    if profile in ('C08', 'C09', 'C10', 'C14', 'C15'):
        Dmax = rng.pick([1, 2, 3, 4, 4, 6, 8])
    faultfree = rng.chance(0.25)
    enabled = []
    if not faultfree:
        for k in GAUGE_KINDS:
            if rng.chance(0.7):
                enabled.append(k)
        for k, p in (('RNGENV', 0.9), ('LAYOUT', 0.6), ('WPROT', 0.7), ('RAISE', 0.3 if profile in ('C19', 'C02', 'MIX') else 0.15), ('GLOBALS', 0.5)):
            if rng.chance(p):
                enabled.append(k)
    cfg = {'world': 'tn', 'profile': profile, 'tier': tier, 'family': fam, 'd': d, 'qd': qd, 'L': L, 'Dmax': Dmax,
           'enabled': enabled, 'faultfree': faultfree, 'dense_cap': 256 if tier == 'quick' else 1024}
    if profile not in ('C08', 'C09', 'C10', 'C14', 'C15', 'C20') and L <= 4 and d >= 2 and rng.chance(0.05):
        cfg['fat'] = rng.pick([40, 70, 130, 130, 260, 520])
    elif profile in ('C08', 'C09', 'C10', 'C14', 'C15') and L <= 3 and d >= 2 and rng.chance(0.03):
        cfg['fat'] = rng.pick([24, 40])
    nops = rng.randrange(3, 13) if tier == 'quick' else rng.randrange(4, 31)
    if rng.chance(0.06):
        cfg['pyopt'] = True       # run this session under `python -O`
    if profile == 'C20' and d ** L > 256:
        nops = rng.randrange(0, 2)      # large chains: only the constructor (dense 1024 x 1024 models are expensive)
    ops = []
    complete = False
    # ---- prelude -------------------------------------------------------------------------------
    if want_ham or (profile in ('C02', 'C04', 'C19', 'MIX', 'C11', 'C12', 'C13') and rng.chance(0.5)):
        generic = (profile == 'C20') or rng.chance(0.3)
        ops.append(gen_ham_op(rng, cfg, generic=generic))
        if rng.chance(0.15) and profile not in ('C20',):
            ops.append({'op': 'zero_qnumbers', 'sel': len(ops) - 1, 'kind': 'mpo'})
            cfg['zeroed_ham'] = True
    if profile in ('C08', 'C09', 'C10') and rng.chance(0.2):
        ops.append({'op': 'shift_H', 'sel': rng.sub(), 'rel': rng.pick([1.0, 1.5, 3.0, -1.0, -1.5, 0.5])})
    if profile in ('C09', 'C10') and rng.chance(0.6 if profile == 'C09' else 0.3):
        complete = True
    if profile in ('C08', 'C09', 'C10', 'C14', 'C15'):
        if cfg.get('zeroed_ham'):
            st = 'maxzero' if complete else 'zeroq'
            mcfg = dict(cfg, qd=[0] * d)
            op = gen_new_mps(rng, mcfg, style=st)
            op['qd_override'] = [0] * d
            ops.append(op)
        else:
            if not any(qd):
                st = 'maxzero' if complete else 'zeroq'
            else:
                st = 'full' if complete else rng.wpick([('valid', 5), ('full', 1), ('random', 0.5)])
            ops.append(gen_new_mps(rng, cfg, style=st))
        if ops[-1]['fill'] == 'scalar' or complete:
            ops[-1]['fill'] = 'rng'
            ops[-1]['entries'] = 'complex'
            ops[-1].pop('value', None)
        if rng.chance(0.12):
            # start states with exact zeros inside their tensors (scattered, or a single basis configuration)
            ops.append({'op': 'edit', 'sel': rng.sub(), 'kind': 'mps', 'site': rng.sub(), 'what': rng.pick(['sparsify', 'sparsify', 'basis_state']),
                        'step': 1, 'sub': rng.sub(), 'factor': 1.0})
    else:
        ops.append(gen_new_mps(rng, cfg))
        if rng.chance(0.6):
            ops.append(gen_new_mps(rng, cfg))
    cfg['complete'] = complete
    # ---- body ------------------------------------------------------------------------------------
    table = [(k, w) for k, w in BODY[profile].items()]
    for _ in range(nops):
        kind = rng.wpick(table)
        ops.append(gen_op(rng, cfg, kind))
    # ---- representation of label / scalar arguments (lists, tuples, other integer dtypes, numpy scalars, 0-d arrays) ----
    for op in ops:
        if op['op'] in ('new_mps', 'new_mpo', 'tdvp', 'dmrg', 'compress', 'from_vector') and rng.chance(0.35):
            op['rep'] = rng.randrange(0, 12)
            if profile in ('C08', 'C09', 'C10', 'C14', 'C15', 'C20') and op['rep'] >= 5:
                op['rep'] -= 5        # narrow / unsigned label types are kept out of the dynamics histories (tn_core.NARROWQ_OK)
    # ---- environment of every op -------------------------------------------------------------
    raise_used = False
    for op in ops:
        env = {'gauge': rng.sub(), 'kinds': [], 'raise_at': None, 'raise_on': 'any', 'layout': None, 'wprot': False}
        if not faultfree:
            if rng.chance(0.45):
                env['kinds'] = [k for k in GAUGE_KINDS if k in enabled and rng.chance(0.6)]
            if 'LAYOUT' in enabled and rng.chance(0.3):
                env['layout'] = rng.pick(['F', 'strided', 'ro', 'F'])
            if 'WPROT' in enabled and rng.chance(0.6):
                env['wprot'] = True
            if 'RAISE' in enabled and not raise_used and op['op'] in ('orthonormalize', 'compress', 'tdvp', 'dmrg', 'split_merge', 'from_vector', 'kernel', 'tdvp_reverse') and rng.chance(0.35):
                env['raise_at'] = rng.pick([0, 0, 1, 1, 2, 3, 5, 8])
                env['raise_on'] = rng.pick(['any', 'svd', 'svd'])
                raise_used = True
            if 'GLOBALS' in enabled and rng.chance(0.35):
                env['globals'] = gen_globals(rng, allow_exceptions=True)
        op['env'] = env
    return {'world': 'tn', 'prop': prop, 'tier': tier, 'seed': seed, 'config': cfg, 'ops': ops}


def _dt(rng: Rng, profile, complete):
    if rng.chance(0.02):
        return [0.0, 0.0]          # a time grid that starts with a zero step
    if profile == 'C09':
        mag = rng.uniform(0.05, 0.5)
        kind = rng.pick(['imag', 'real', 'complex', 'complex'])
    elif profile == 'C08':
        mag = rng.uniform(0.05, 2.0)
        kind = 'imag'
    else:
        mag = rng.uniform(0.05, 1.0)
        kind = rng.wpick([('imag', 5), ('real', 1), ('complex', 1)])
    if kind == 'imag':
        return [0.0, rng.pick([-1, 1]) * mag]
    if kind == 'real':
        return [rng.pick([-1, 1]) * mag, 0.0]
    import math
    ph = rng.uniform(0, 2 * math.pi)
    return [mag * math.cos(ph), mag * math.sin(ph)]


def gen_op(rng: Rng, cfg, kind: str) -> dict:
    profile = cfg['profile']
    L, d = cfg['L'], cfg['d']
    s = rng.sub
    if kind == 'new_mps':
        if cfg.get('zeroed_ham') and rng.chance(0.7):
            op = gen_new_mps(rng, dict(cfg, qd=[0] * d))
            op['qd_override'] = [0] * d
            return op
        return gen_new_mps(rng, cfg)
    if kind == 'new_mpo':
        shift = 0 if rng.chance(0.7) else rng.pick(sorted(set(a - b for a in cfg['qd'] for b in cfg['qd'])))
        q0 = 0 if (rng.chance(0.7) or not any(cfg['qd'])) else rng.pick([1, -1, 2, -3])
        return {'op': 'new_mpo', 'qD': gen_mpo_qD(rng, cfg['qd'], L, min(cfg['Dmax'], 4), shift=shift, q0=q0), 'sub': s(),
                'fill': rng.wpick([('rng', 8), ('env', 1), ('scalar', 1)]), 'value': rng.pick([1.0, 1, 0.5, 2]),
                'entries': rng.wpick([('complex', 6), ('real', 2), ('int', 1), ('single', 0.4), ('long', 0.2)]),
                'magnitude': rng.wpick([('normal', 8), ('unbalanced', 1), ('tiny', 1), ('huge', 0.5)])}
    if kind == 'identity':
        return {'op': 'identity', 'scale': rng.pick([1, 1.0, 0.5, -2.0, [0.0, 1.0], 3]), 'dtype': rng.pick(['complex', 'float', 'complex'])}
    if kind == 'ham':
        return gen_ham_op(rng, cfg, generic=(profile == 'C20') or rng.chance(0.3))
    if kind == 'herm_mpo':
        return {'op': 'herm_mpo', 'qD': gen_mpo_qD(rng, cfg['qd'], L, min(cfg['Dmax'], 3)), 'sub': s(),
                'entries': rng.pick(['complex', 'complex', 'real']), 'product': rng.chance(0.25)}
    if kind == 'from_vector':
        return {'op': 'from_vector', 'sel': s(), 'tol': rng.pick(DYADIC_TOLS) if rng.chance(0.6) else 0.0,
                'admix': rng.pick([None, None, 20, 27, 30, 34]), 'sub': s()}
    if kind == 'deepcopy':
        return {'op': 'deepcopy', 'sel': s()}
    if kind == 'share_copy':
        return {'op': 'share_copy', 'sel': s()}
    if kind == 'orthonormalize':
        return {'op': 'orthonormalize', 'sel': s(), 'mode': rng.pick(['left', 'right']), 'extreme': rng.chance(0.06),
                'kind': rng.wpick([('mps', 3), ('mpo', 1)]) if profile not in ('C08', 'C09', 'C10') else rng.wpick([('mps', 4), ('mpo', 1)])}
    if kind == 'compress':
        tol = rng.pick(DYADIC_TOLS)
        return {'op': 'compress', 'sel': s(), 'tol': tol, 'tolscale': rng.random(), 'mode': rng.pick(['left', 'right']),
                'exact_tie': rng.chance(0.2), 'between': rng.chance(0.3)}
    if kind == 'zero_qnumbers':
        return {'op': 'zero_qnumbers', 'sel': s(), 'kind': rng.pick(['mps', 'mpo'])}
    if kind == 'edit':
        return {'op': 'edit', 'sel': s(), 'kind': rng.wpick([('mps', 3), ('mpo', 1)]), 'site': s(),
                'what': rng.pick(['scale', 'scale_inplace', 'clamp', 'bonddiag', 'real', 'int', 'zero_site', 'dupbond', 'product', 'ghz', 'staircase',
                                  'staircase', 'unbalance', 'tiny', 'local_op_inplace', 'uniform', 'nearly_one', 'bond_permute', 'bond_permute', 'charge_offset', 'sparsify', 'sparsify', 'basis_state']),
                'step': rng.pick([1, 1, 4, 8, 10]),
                'sub': s(), 'factor': rng.pick([2.0, -1.0, 0.5, 1e-3, 1e3, [0.0, 1.0], 0.25])}
    if kind in ('add', 'sub'):
        return {'op': kind, 'a': s(), 'b': s(), 'kind': rng.wpick([('mps', 3), ('mpo', 2)])}
    if kind == 'matmul':
        return {'op': 'matmul', 'a': s(), 'b': s()}
    if kind == 'apply':
        return {'op': 'apply', 'a': s(), 'b': s()}
    if kind == 'split_merge':
        return {'op': 'split_merge', 'sel': s(), 'site': s(), 'distr': rng.pick(['left', 'right', 'sqrt']),
                'tol': rng.pick(DYADIC_TOLS) if rng.chance(0.5) else 0.0, 'exact_tie': rng.chance(0.3), 'between': rng.chance(0.3),
                'tolscale': rng.random()}
    if kind == 'shift_H':
        return {'op': 'shift_H', 'sel': s(), 'rel': rng.pick([1.0, 1.5, 3.0, -1.0, -1.5, 0.5])}
    if kind == 'scale_H_inplace':
        return {'op': 'scale_H_inplace', 'sel': s(), 'site': s(), 'factor': rng.pick([0.5, 2.0, -1.0, 1.5, 0.25])}
    if kind == 'kernel':
        return {'op': 'kernel', 'which': rng.pick(['qr', 'svd']), 'sel': s(), 'site': s(), 'reuse': rng.chance(0.5),
                'mutate': rng.pick(['negate', 'shift', 'scribble_result', 'permute', 'refill', 'refill']), 'sub': s(),
                'magnitude': rng.wpick([('normal', 6), ('tiny', 1), ('huge', 1)]),
                'qdtype': rng.pick([None, None, None, 'uint8', 'uint16', 'uint32', 'int8', 'int16', 'int32']),
                'tol': rng.pick(DYADIC_TOLS) if rng.chance(0.5) else 0.0}
    if kind == 'tdvp':
        return {'op': 'tdvp', 'H': s(), 'psi': s(), 'sites': rng.pick([1, 1, 2]), 'dt': _dt(rng, profile, cfg.get('complete')), 'extreme': rng.chance(0.05),
                'n': rng.pick([1, 1, 2, 3, 1, 1, 2, 3, 1, 1, 2, 3, 0]) if not (L <= 4 and cfg['Dmax'] <= 4 and not cfg.get('fat') and rng.chance(0.02 if profile != 'C09' else 0.06))
                else (rng.randrange(51, 58) if profile != 'C09' else rng.randrange(51, 140)),
                'numiter': rng.pick(NUMITERS_TDVP) if profile != 'C09' else rng.pick([12, 16, 25, 40]),
                'tol_split': 0.0 if ((profile in ('C08', 'C09') and rng.chance(0.85)) or rng.chance(0.6)) else rng.pick([1e-10, 1e-7, 1e-6, 1e-3, 0.0625])}
    if kind == 'tdvp_reverse':
        return {'op': 'tdvp_reverse', 'H': s(), 'psi': s(), 'dt': _dt(rng, 'C09', False),
                'n': rng.pick([1, 1, 2, 3]) if not (L <= 4 and cfg['Dmax'] <= 4 and not cfg.get('fat') and rng.chance(0.04)) else rng.randrange(40, 100),
                'numiter': rng.pick([12, 16, 25, 40])}
    if kind == 'dmrg':
        return {'op': 'dmrg', 'H': s(), 'psi': s(), 'sites': rng.pick([1, 1, 2]), 'numsweeps': rng.pick([1, 1, 2, 3, 4]),
                'numiter': rng.pick(NUMITERS_DMRG) if not cfg.get('complete') else rng.pick([25, 50, 50, 6]),
                'tol_split': 0.0 if rng.chance(0.7) else rng.pick([1e-10, 1e-6, 1e-3])}
    if kind in ('as_vector', 'norm'):
        return {'op': kind, 'sel': s()}
    if kind == 'as_matrix':
        return {'op': 'as_matrix', 'sel': s(), 'sparse': rng.chance(0.5)}
    if kind == 'vdot':
        return {'op': 'vdot', 'a': s(), 'b': s()}
    if kind == 'op_avg':
        return {'op': 'op_avg', 'psi': s(), 'H': s()}
    if kind == 'op_inner':
        return {'op': 'op_inner', 'chi': s(), 'psi': s(), 'H': s()}
    if kind == 'op_density':
        return {'op': 'op_density', 'a': s(), 'b': s()}
    if kind == 'env_blocks':
        return {'op': 'env_blocks', 'psi': s(), 'H': s(), 'sub': s()}
    raise ValueError(kind)
