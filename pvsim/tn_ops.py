"""TN world executor, part 3: in-place transitions (C01, C13), pure arithmetic (C03) and reads (C04)."""
import numpy as np

from .tn_core import TOL, ISO_TOL, arrays_of
from .tn_ctor import TNCtor, cplx, rep_scalar
from . import dense as dn
from .base import HarnessError


def site_matrix(A, kind, mode):
    """Site tensor reshaped so that 'isometry in the chosen direction' means orthonormal columns."""
    if kind == 'mps':
        if mode == 'left':
            return A.reshape(A.shape[0] * A.shape[1], A.shape[2])
        B = A.transpose(0, 2, 1)
        return B.reshape(B.shape[0] * B.shape[1], B.shape[2])
    if mode == 'left':
        return A.reshape(A.shape[0] * A.shape[1] * A.shape[2], A.shape[3])
    B = A.transpose(0, 1, 3, 2)
    return B.reshape(B.shape[0] * B.shape[1] * B.shape[2], B.shape[3])


def bond_dims(ref, kind):
    ax = 1 if kind == 'mps' else 2
    return [a.shape[ax] for a in ref.A] + [ref.A[-1].shape[ax + 1]]


class TNOps(TNCtor):

    # ================================ in-place transitions ==================================
    def isometry_ok(self, o, mode, props, clause):
        worst = 0.0
        for A in o.ref.A:
            worst = max(worst, dn.isometry_defect(site_matrix(np.asarray(A), o.kind, mode)))
        return self.check(worst <= ISO_TOL * o.prec, props, clause, lambda: f'site tensors are not {mode}-isometries: max defect {worst:.3e}')

    def op_scale_H_inplace(self, op):
        """History: the user rescales one tensor of a Hamiltonian in place (a coupling ramped between calls); the
        operator stays Hermitian, the array objects stay the same."""
        o = self.pick(op['sel'], 'mpo', lambda x: x.herm and not any(np.issubdtype(a.dtype, np.integer) for a in x.ref.A))
        if o is None:
            return 'skipped'
        i = int(op['site']) % len(o.ref.A)
        if not o.ref.A[i].flags.writeable:
            return 'skipped'
        siblings = [x for x in self.live() if x is not o and any(np.may_share_memory(a, b) for a in x.ref.A for b in o.ref.A)]
        dense_before = o.dense.copy()
        o.ref.A[i] *= op['factor']
        self.resync(o)
        for x in siblings:
            x.traj = None
            self.resync(x)
        if '+uniform' not in o.tag and not o.retired:
            dev = float(np.linalg.norm(o.dense - op['factor'] * dense_before))
            self.check(dev <= TOL * max(o.scale, float(np.linalg.norm(dense_before)) * abs(op['factor'])), 'C03', 'site_edit_is_local',
                       lambda: f'mpo ({o.tag}): after scaling site {i} by {op["factor"]} in place the dense form differs from factor*previous by {dev:.3e}')
        self.probe('hamiltonian_rescaled_in_place')
        return 'ok'

    def op_shift_H(self, op):
        """History: the user shifts a Hamiltonian by a multiple of the identity (H + c 1, built with the library's own
        identity constructor and MPO addition): same eigenvectors, spectrum moved to one side of zero - damped or growing
        evolution for time steps with a real part."""
        ptn = self.ptn
        H = self.pick(op['sel'], 'mpo', lambda x: x.herm and dn.is_int_1d_array(x.ref.qD[0]) and int(x.ref.qD[0][0]) == 0 and int(x.ref.qD[-1][0]) == 0
                      and not any(np.issubdtype(a.dtype, np.integer) for a in x.ref.A) and max(bond_dims(x.ref, 'mpo')) < 60)
        if H is None:
            return 'skipped'
        c = float(op['rel']) * self.opnorm2(H)
        if not np.isfinite(c) or c == 0:
            return 'skipped'
        qd_arg = np.array(H.ref.qd, dtype=int)

        def fn():
            I = ptn.MPO.identity(qd_arg, len(H.ref.A), scale=1.0, dtype=complex)
            I.A[0] = I.A[0] * c
            return H.ref + I
        st, ref = self.guarded(op, fn, operands=(H,), owners=('C03',))
        if st != 'ok':
            return st
        want = H.dense + c * np.identity(H.dense.shape[0])
        self.finish_new('mpo', ref, H.tag + '+shift', op, c03_model=want)
        self.probe('hamiltonian_shifted_by_identity')
        return 'ok'

    def transient_extreme(self, o, op):
        """Same object, tensors of extreme but compensating magnitude (exact powers of two); every in-place
        algorithm starts with a QR sweep that re-balances it, so no extreme object stays in the pool."""
        if op.get('extreme') and len(o.ref.A) >= 2 and o.prec == 1.0 and not o.longp and not any(np.issubdtype(a.dtype, np.integer) for a in o.ref.A) \
                and not any(o.ref.A[i] is o.ref.A[j] for i in range(len(o.ref.A)) for j in range(i)) \
                and not any(x is not o and any(np.may_share_memory(a, b) for a in x.ref.A for b in o.ref.A) for x in self.live()):
            e = 560
            o.ref.A[0] = o.ref.A[0] * 2.0 ** -e
            o.ref.A[-1] = o.ref.A[-1] * 2.0 ** e
            self.resync(o)
            self.probe('transient_extreme_magnitudes')
            return True
        return False

    def op_orthonormalize(self, op):
        o = self.pick(op['sel'], op.get('kind', 'mps'))
        if o is None:
            return 'skipped'
        mode = op['mode']
        self.transient_extreme(o, op)
        v = o.dense.copy()
        sc = o.scale
        nv = float(np.linalg.norm(v))
        bd0 = bond_dims(o.ref, o.kind)
        q0 = (o.ref.qD[0][0], o.ref.qD[-1][0]) if dn.is_int_1d_array(o.ref.qD[0]) and dn.is_int_1d_array(o.ref.qD[-1]) else None
        if any(np.issubdtype(a.dtype, np.integer) for a in o.ref.A):
            self.probe('orth_int_dtype')
        st, c = self.guarded(op, lambda: o.ref.orthonormalize(mode=mode), targets=(o,), owners=('C01',))
        if st != 'ok':
            return st
        o.traj = None
        self.resync(o)
        if o.retired:
            self.unusable(o, ['C01', 'C02'], 'orthonormalize left an object that cannot be contracted')
            return 'ok'
        P = 'C01'
        isnum = isinstance(c, (int, float, np.integer, np.floating)) and np.isfinite(c)
        if not self.check(isnum and c >= 0, P, 'factor_nonneg_real', lambda: f'returned factor {c!r}'):
            return 'ok'
        c = float(c)
        self.check(abs(c - nv) <= TOL * sc * o.prec, P, 'factor_is_norm', lambda: f'returned {c!r}, norm of original {nv!r} (scale {sc:.3e})')
        dev = float(np.linalg.norm(c * o.dense - v))
        self.check(dev <= TOL * sc * o.prec, P, 'reconstruct', lambda: f'|c*new - old|={dev:.3e} (|old|={nv:.3e}, scale {sc:.3e}, mode {mode}, {o.kind})')
        self.isometry_ok(o, mode, P, 'isometry')
        if nv > 1e-6 * sc:
            n1 = float(np.linalg.norm(o.dense))
            self.check(abs(n1 - 1) <= ISO_TOL * 10 * o.prec, P, 'unit_norm', lambda: f'|new|={n1!r}')
        else:
            self.probe('orth_zero_object')
        bd1 = bond_dims(o.ref, o.kind)
        dph = self.d if o.kind == 'mps' else self.d ** 2
        okb = True
        n = len(bd1)
        if mode == 'left':
            for i in range(n - 1):
                okb &= bd1[i + 1] <= min(dph * bd1[i], bd0[i + 1])
        else:
            for i in reversed(range(1, n)):
                okb &= bd1[i - 1] <= min(dph * bd1[i], bd0[i - 1])
        self.check(okb and bd1[0] == 1 and bd1[-1] == 1, P, 'bond_bound', lambda: f'bond dims {bd0} -> {bd1} (mode {mode}, local dim {dph})')
        self.check_c02(o, 'orthonormalize target')
        if o.kind == 'mps' and q0 is not None and nv > 1e-6 * sc and not o.retired:
            q1 = (o.ref.qD[0][0], o.ref.qD[-1][0])
            self.check(q1 == q0, 'C02', 'boundary_charges_kept', lambda: f'boundary charges {q0} -> {q1} under orthonormalize({mode})')
        return 'ok'

    def op_zero_qnumbers(self, op):
        o = self.pick(op['sel'], op.get('kind', 'mps'))
        if o is None:
            return 'skipped'
        if not all(dn.is_int_1d_array(q) and q.flags.writeable for q in [o.ref.qd] + list(o.ref.qD)):
            return 'skipped'
        v = o.dense.copy()
        st, r = self.guarded(op, lambda: o.ref.zero_qnumbers(), targets=(o,), owners=('C02',))
        if st != 'ok':
            return st
        self.resync(o)
        self.check(np.array_equal(o.dense, v), 'C19', 'zero_qnumbers_changed_tensors', 'zero_qnumbers altered tensor entries')
        self.check_c02(o, 'zero_qnumbers target')
        return 'ok'

    def op_edit(self, op):
        o = self.pick(op['sel'], op.get('kind', 'mps'))
        if o is None:
            return 'skipped'
        r = o.ref
        n = len(r.A)
        i = int(op['site']) % n
        what = op['what']
        # objects sharing tensor memory with the target (user level aliasing) see in-place edits too
        siblings = [x for x in self.live() if x is not o and any(np.may_share_memory(a, b) for a in x.ref.A for b in r.A)]
        dense_before = o.dense.copy() if o.dense is not None else None
        scale_before = o.scale
        harness_shared = '+uniform' in o.tag
        bax = 2 if o.kind == 'mps' else 3   # right bond axis
        g = np.random.Generator(np.random.PCG64(op['sub']))
        f = cplx(op.get('factor', 2.0))

        def own(j):
            # in-place edits stay in place whenever the array can be written to (views included)
            if not r.A[j].flags.writeable:
                r.A[j] = np.array(r.A[j])
        if what == 'scale':
            r.A[i] = r.A[i] * f
        elif what == 'scale_inplace':
            own(i)
            if isinstance(f, complex) and not np.iscomplexobj(r.A[i]):
                f = 2.0
            if np.issubdtype(r.A[i].dtype, np.integer):
                f = 2
            r.A[i] *= f
        elif what == 'local_op_inplace':
            # apply a random diagonal (charge conserving) local operator in place
            own(i)
            dgl = g.uniform(0.5, 1.5, size=r.A[i].shape[0])
            if np.issubdtype(r.A[i].dtype, np.integer):
                return 'skipped'
            if o.kind == 'mps':
                r.A[i][...] = r.A[i] * dgl[:, None, None]
            else:
                r.A[i][...] = r.A[i] * dgl[:, None, None, None]
        elif what == 'nearly_one':
            # norm within 1e-6 of its previous value (e.g. a canonical state that is almost, but not exactly, normalised)
            if np.issubdtype(r.A[i].dtype, np.integer):
                return 'skipped'
            r.A[i] = r.A[i] * [1.0 + 2.0 ** -19, 1.0 - 2.0 ** -21, 1.0 + 2.0 ** -30][int(op['sub']) % 3]
        elif what == 'uniform':
            # translation invariant user input: the very same array object on every site where the shape fits
            base = r.A[i]
            hits = 0
            for j in range(n):
                if j != i and r.A[j].shape == base.shape and np.array_equal(np.asarray(r.qD[j]), np.asarray(r.qD[i])) \
                        and np.array_equal(np.asarray(r.qD[j + 1]), np.asarray(r.qD[i + 1])):
                    r.A[j] = base
                    hits += 1
            if not hits:
                return 'skipped'
            o.tag += '+uniform'
            self.probe('shared_tensor_on_several_sites')
        elif what == 'unbalance':
            # same object, extremely unbalanced tensors (exact powers of two)
            if n < 2 or np.issubdtype(r.A[0].dtype, np.integer) or np.issubdtype(r.A[-1].dtype, np.integer):
                return 'skipped'
            r.A[0] = r.A[0] * 2.0 ** -60
            r.A[-1] = r.A[-1] * 2.0 ** 60
        elif what == 'tiny':
            for j in range(n):
                if np.issubdtype(r.A[j].dtype, np.integer):
                    return 'skipped'
            for j in range(n):
                r.A[j] = r.A[j] * 2.0 ** -20
        elif what in ('clamp', 'product'):
            D = 1 if what == 'product' else int(g.integers(1, 3))
            for j in range(n):
                own(j)
                if o.kind == 'mps':
                    r.A[j][:, D:, :] = 0
                    r.A[j][:, :, D:] = 0
                else:
                    r.A[j][:, :, D:, :] = 0
                    r.A[j][:, :, :, D:] = 0
        elif what in ('bonddiag', 'staircase'):
            Dr = r.A[i].shape[bax]
            if what == 'staircase':
                dg = 2.0 ** (-float(op.get('step', 1)) * np.arange(Dr))
            else:
                dg = g.uniform(0.1, 2.0, size=Dr)
            r.A[i] = r.A[i] * dg
        elif what == 'real':
            for j in range(n):
                r.A[j] = np.array(r.A[j].real)
        elif what == 'int':
            for j in range(n):
                r.A[j] = np.round(np.asarray(r.A[j]).real * 4).astype(np.int64)
        elif what == 'zero_site':
            r.A[i] = np.zeros_like(r.A[i])
        elif what == 'dupbond':
            q = r.qD[i + 1]
            if i + 1 < n and len(q) >= 2 and q[0] == q[1]:
                own(i)
                if o.kind == 'mps':
                    r.A[i][:, :, 1] = r.A[i][:, :, 0]
                else:
                    r.A[i][:, :, :, 1] = r.A[i][:, :, :, 0]
            else:
                return 'skipped'
        elif what == 'ghz':
            for j in range(n):
                r.A[j] = np.where(r.A[j] != 0, 1.0, 0.0)
        elif what == 'sparsify':
            # exact zeros scattered inside one site tensor (zeros are allowed everywhere; the object stays block sparse)
            if np.issubdtype(r.A[i].dtype, np.integer):
                return 'skipped'
            keep = g.random(size=r.A[i].shape) < float(g.uniform(0.3, 0.8))
            r.A[i] = np.where(keep, r.A[i], 0)
            self.probe('site_tensor_with_scattered_exact_zeros')
        elif what == 'basis_state':
            # a computational-basis-like object: one non-zero entry per site along a connected path of bond indices
            prev = 0
            new = []
            for j in range(n):
                T = np.asarray(r.A[j])
                sub = np.take(T, prev, axis=-2)
                nz = np.argwhere(sub != 0)
                if len(nz) == 0 or np.issubdtype(T.dtype, np.integer):
                    return 'skipped'
                pick = nz[int(g.integers(0, len(nz)))]
                Z = np.zeros_like(T)
                idx = tuple(pick[:-1]) + (prev, int(pick[-1]))
                Z[idx] = T[idx]
                new.append(Z)
                prev = int(pick[-1])
            for j in range(n):
                r.A[j] = new[j]
            self.probe('basis_state_object')
        elif what == 'bond_permute':
            # user-level change of the bond basis: permute the virtual index of bond i+1 on both adjacent tensors and in the
            # label list (same object, same block structure, labels no longer in the order the library produced)
            if i + 1 >= n or len(r.qD[i + 1]) < 2 or not dn.is_int_1d_array(r.qD[i + 1]):
                return 'skipped'
            perm = g.permutation(len(r.qD[i + 1]))
            r.A[i] = np.ascontiguousarray(np.take(r.A[i], perm, axis=-1))
            r.A[i + 1] = np.ascontiguousarray(np.take(r.A[i + 1], perm, axis=-2))
            r.qD[i + 1] = np.array(r.qD[i + 1])[perm]
            self.probe('bond_basis_permuted_by_user')
        elif what == 'charge_offset':
            # user-level relabelling: the same constant added to every bond label (charge conservation only sees differences)
            if not all(dn.is_int_1d_array(q) for q in r.qD):
                return 'skipped'
            c = int(g.integers(-3, 4)) or 2
            if any(np.issubdtype(np.asarray(q).dtype, np.unsignedinteger) for q in r.qD):
                c = abs(c)
            if max(int(np.abs(q).max()) for q in r.qD) > 2 ** 60:
                return 'skipped'
            r.qD = [np.array(q) + c for q in r.qD]
            self.probe('bond_labels_offset_by_user')
        else:
            return 'skipped'
        o.traj = None
        self.resync(o)
        for x in siblings:
            x.traj = None
            self.resync(x)
        if what in ('bond_permute', 'charge_offset') and dense_before is not None and not o.retired:
            # harness self-check: these edits are gauge changes, the denoted vector / operator is the same
            if not np.array_equal(o.dense, dense_before) and float(np.linalg.norm(o.dense - dense_before)) > TOL * scale_before:
                raise HarnessError(f'{what} changed the dense model')
            self.check_c02(o, f'{what} (harness self-check)')
        if what in ('scale', 'scale_inplace', 'nearly_one') and dense_before is not None and not o.retired and not harness_shared:
            # history refinement: rescaling ONE site tensor rescales the denoted vector / operator by that factor
            # (fails when the library handed out an object whose sites share one array)
            ftrue = f if what != 'nearly_one' else [1.0 + 2.0 ** -19, 1.0 - 2.0 ** -21, 1.0 + 2.0 ** -30][int(op['sub']) % 3]
            dev = float(np.linalg.norm(o.dense - ftrue * dense_before))
            self.check(dev <= TOL * max(scale_before * abs(ftrue), float(np.linalg.norm(dense_before))), 'C03', 'site_edit_is_local',
                       lambda: f'{o.kind} ({o.tag}): after scaling site {i} by {ftrue!r} the dense form differs from factor*previous by {dev:.3e}')
        return 'ok'

    def first_cut_keep(self, v, mode, tol):
        """Number of Schmidt values the tolerance rule keeps at the first truncated cut, or None in the guard band."""
        L, d = self.L, self.d
        dl = d if mode == 'left' else d ** (L - 1)
        s = dn.schmidt_values(v / np.linalg.norm(v), dl)
        w = (s / np.linalg.norm(s)) ** 2
        ws = np.sort(w)
        cum = np.cumsum(ws)
        guard = 1e-9 * max(tol, 1e-3)
        if np.any(np.abs(cum - tol) <= guard) or np.any((cum > 0) & (cum <= 1e-20)):
            return None
        # ties between a kept and a discarded value make the count independent of which one goes
        return int(np.sum(cum > tol))

    def op_compress(self, op):
        o = self.pick(op['sel'], 'mps')
        if o is None:
            return 'skipped'
        L = self.L
        v = o.dense.copy()
        nv = float(np.linalg.norm(v))
        sc = o.scale
        if nv <= 1e-6 * sc:
            self.skip('compress_zero_state_outside_domain')
            return 'skipped'
        tol = float(op['tol'])
        if tol * L >= 1:
            tol = tol / (2 * L)
        mode = op['mode']
        if op.get('exact_tie') and L >= 2:
            dl = self.d if mode == 'left' else self.d ** (L - 1)
            s = dn.schmidt_values(v / nv, dl)
            w = np.sort((s / np.linalg.norm(s)) ** 2)
            cum = np.cumsum(w)
            cands = [c for c in cum[:-1] if 0 < c * L < 1]
            if cands:
                tol = float(cands[int(op.get('tolscale', 0) * len(cands)) % len(cands)])
                self.probe('compress_tol_at_cumulative_weight')
        elif op.get('between') and L >= 2:
            # tolerance strictly between two consecutive cumulative weights (a cut inside a group of tied values included)
            dl = self.d if mode == 'left' else self.d ** (L - 1)
            s = dn.schmidt_values(v / nv, dl)
            w = np.sort((s / np.linalg.norm(s)) ** 2)
            cum = np.cumsum(w)
            mids = [0.5 * (a + b) for a, b in zip(cum[:-1], cum[1:]) if b - a > 1e-6 and 0 < 0.5 * (a + b) * L < 1]
            if mids:
                tol = float(mids[int(op.get('tolscale', 0) * len(mids)) % len(mids)])
                self.probe('compress_tol_between_cumulative_weights')
        bd0 = bond_dims(o.ref, 'mps')
        q0 = (o.ref.qD[0][0], o.ref.qD[-1][0]) if dn.is_int_1d_array(o.ref.qD[0]) and dn.is_int_1d_array(o.ref.qD[-1]) else None
        tol_a = rep_scalar(tol, op.get('rep'))
        st, res = self.guarded(op, lambda: o.ref.compress(tol_a, mode=mode), targets=(o,), owners=('C13',))
        if isinstance(tol_a, np.ndarray):
            self.check(float(tol_a) == float(tol), ['C19', 'C13'], 'tolerance_argument_modified', lambda: f'the 0-d array passed as tolerance changed from {tol!r} to {float(tol_a)!r}')
        if st != 'ok':
            return st
        o.traj = None
        self.resync(o)
        P = 'C13'
        if o.retired:
            self.unusable(o, [P, 'C02'], 'compress left an object that cannot be contracted')
            return 'ok'
        try:
            nrm, scale = res
            nrm = float(nrm)
            scale = float(scale)
            okres = np.isfinite(nrm) and np.isfinite(scale)
        except Exception:
            okres = False
        if not self.check(okres, P, 'returns_pair', lambda: f'compress returned {res!r}'):
            return 'ok'
        kappa = sc / nv
        self.check(abs(nrm - nv) <= TOL * sc, P, 'returns_norm', lambda: f'returned norm {nrm!r}, actual {nv!r}')
        lo = np.sqrt(max(0.0, 1 - L * tol))
        self.check(lo - 1e-12 <= scale <= 1 + 1e-12, P, 'scale_range', lambda: f'scale {scale!r} outside [{lo!r}, 1] (tol={tol}, L={L})')
        n1 = float(np.linalg.norm(o.dense))
        self.check(abs(n1 - 1) <= 1e-10, P, 'unit_norm', lambda: f'|new|={n1!r}')
        self.isometry_ok(o, mode, P, 'canonical')
        bd1 = bond_dims(o.ref, 'mps')
        self.check(all(a <= b for a, b in zip(bd1, bd0)), P, 'bonds_not_larger', lambda: f'{bd0} -> {bd1}')
        if kappa <= 1e5:
            err2 = float(np.linalg.norm(nrm * scale * o.dense - v) ** 2)
            want = nrm ** 2 * (1 - scale ** 2)
            self.check(abs(err2 - want) <= 1e-11 * max(1.0, kappa) * nrm ** 2, P, 'error_identity',
                       lambda: f'|nrm*scale*new - old|^2={err2!r} vs nrm^2(1-scale^2)={want!r} (tol={tol}, mode={mode})')
            self.check(np.sqrt(err2) <= nrm * np.sqrt(L * tol) + 1e-9 * max(1.0, kappa) * nrm, P, 'error_bound',
                       lambda: f'error {np.sqrt(err2)!r} > nrm*sqrt(L*tol)={nrm*np.sqrt(L*tol)!r}')
            if tol == 0:
                dev = float(np.linalg.norm(nrm * o.dense - v))
                self.check(dev <= TOL * sc, P, 'tol0_exact', lambda: f'|nrm*new - old|={dev:.3e}')
        else:
            self.skip('ill_conditioned')
        if L >= 2 and kappa <= 1e3:
            keep = self.first_cut_keep(v, mode, tol)
            if keep is None:
                self.skip('guard_band_first_cut')
            else:
                got = bd1[1] if mode == 'left' else bd1[-2]
                self.check(got == keep, P, 'first_cut_count', lambda: f'first truncated bond keeps {got}, tolerance rule prescribes {keep} (tol={tol}, mode={mode})')
                if keep < (bd0[1] if mode == 'left' else bd0[-2]):
                    self.probe('compress_truncated')
        self.check_c02(o, 'compress target')
        if q0 is not None and not o.retired:
            q1 = (o.ref.qD[0][0], o.ref.qD[-1][0])
            self.check(q1 == q0, 'C02', 'boundary_charges_kept', lambda: f'boundary charges {q0} -> {q1} under compress')
        return 'ok'

    def op_split_merge(self, op):
        ptn = self.ptn
        o = self.pick(op['sel'], 'mps', lambda x: len(x.ref.A) >= 2)
        if o is None:
            return 'skipped'
        r = o.ref
        i = int(op['site']) % (len(r.A) - 1)
        distr = op['distr']
        tol = float(op.get('tol', 0.0))
        if tol >= 1:
            tol = 0.5
        v0 = o.dense.copy()
        sc0 = o.scale
        self.last_split = None
        if (op.get('between') or op.get('exact_tie')) and tol > 0 and float(np.linalg.norm(v0)) > 1e-6 * sc0:
            s_ = dn.schmidt_values(v0 / np.linalg.norm(v0), self.d ** (i + 1))
            w_ = np.sort((s_ / np.linalg.norm(s_)) ** 2)
            cum = np.cumsum(w_)
            if op.get('between'):
                cands = [0.5 * (a + b) for a, b in zip(cum[:-1], cum[1:]) if b - a > 1e-6]
            else:
                cands = [c for c in cum[:-1] if c > 0]
            cands = [c for c in cands if 0 < c < 1]
            if cands:
                tol = float(cands[int(op.get('tolscale', 0) * len(cands)) % len(cands)])
                self.probe('split_tol_from_spectrum')

        def fn():
            Am = ptn.merge_mps_tensor_pair(r.A[i], r.A[i + 1])
            A0, A1, qb = ptn.split_mps_tensor(Am, r.qd, r.qd, [r.qD[i], r.qD[i + 2]], distr, tol)
            return Am, A0, A1, qb
        st, res = self.guarded(op, fn, operands=(o,), owners=('C03', 'C12') if tol == 0 else ('C12',))
        if st != 'ok':
            return st
        Am, A0, A1, qb = res
        nA = float(np.linalg.norm(Am))
        M2 = np.einsum('plb,qbr->pqlr', A0, A1).reshape(Am.shape) if A0.shape[2] == A1.shape[1] and A0.shape[2] > 0 else None
        if not self.check(M2 is not None or nA == 0, ['C12', 'C03'], 'split_shapes', lambda: f'split tensors {A0.shape} {A1.shape}'):
            return 'ok'
        if M2 is None:
            return 'ok'
        if tol == 0:
            dev = float(np.linalg.norm(M2 - Am))
            self.check(dev <= 1e-12 * max(nA, 1e-300) if nA > 0 else dev == 0, 'C03', 'merge_undoes_split',
                       lambda: f'|merge(split(A)) - A|={dev:.3e} |A|={nA:.3e} distr={distr}')
        if self.last_split is not None and nA > 0:
            u, s, vv, q = self.last_split
            d = self.d
            P = ((u * s) @ vv).reshape(d, Am.shape[1], d, Am.shape[2]).transpose(0, 2, 1, 3).reshape(Am.shape)
            dev = float(np.linalg.norm(M2 - P))
            self.check(dev <= 1e-12 * nA, 'C12', 'distr_merge_equals_usv', lambda: f'distr={distr}: |merge(A0,A1) - u s v|={dev:.3e}')
        # sparsity / labels of the pieces
        okq = dn.is_int_1d_array(qb) and len(qb) == A0.shape[2] == A1.shape[1]
        self.check(okq, ['C02', 'C12'], 'split_bond_labels', lambda: f'qbond {qb!r} for shapes {A0.shape} {A1.shape}')
        if okq and dn.is_int_1d_array(r.qd) and dn.is_int_1d_array(r.qD[i]) and dn.is_int_1d_array(r.qD[i + 2]):
            o0 = dn.offsupport_max(A0, [r.qd, r.qD[i], -np.asarray(qb)], dn.label_modulus(r.qd, r.qD[i], qb))
            o1 = dn.offsupport_max(A1, [r.qd, qb, -np.asarray(r.qD[i + 2])], dn.label_modulus(r.qd, qb, r.qD[i + 2]))
            self.check(o0 == 0.0 and o1 == 0.0, ['C02', 'C12'], 'split_block_sparse', lambda: f'off-support entries {o0!r} {o1!r}')
        # write the pieces back into the state (tensor splitting as a state update)
        if okq and len(qb) >= 1:
            r.A[i], r.A[i + 1], r.qD[i + 1] = A0, A1, qb
            o.traj = None
            self.resync(o)
            if tol == 0 and not o.retired:
                dev = float(np.linalg.norm(o.dense - v0))
                self.check(dev <= TOL * max(sc0, o.scale), 'C03', 'split_keeps_state', lambda: f'|state after write-back - before|={dev:.3e}')
            if not o.retired:
                self.check_c02(o, 'split_merge write-back')
        return 'ok'

    # ================================ direct kernel calls ===================================
    def op_kernel(self, op):
        """
        The public block kernels called the way a user calls them: with caller-owned matrices and charge
        arrays that live on in the session, are updated in place and are passed again (history), and - for
        the QR - with extreme but representable magnitudes.  Judged by the C11 / C12 monitors.
        """
        ptn = self.ptn
        which = op.get('which', 'qr')
        st = getattr(self, 'kernel_state', None)
        reuse = bool(op.get('reuse')) and st is not None and st['which'] == which
        if reuse:
            A, q0, q1 = st['A'], st['q0'], st['q1']
            how = op.get('mutate', 'negate')
            kept = [(x, x.tobytes()) for x in st.get('out', []) if isinstance(x, np.ndarray)]
            if how == 'negate' and np.issubdtype(q0.dtype, np.unsignedinteger):
                how = 'shift'
            if how == 'negate':
                q0 *= -1
                q1 *= -1
            elif how == 'shift':
                q0 += 3
                q1 += 3
            elif how == 'scribble_result' and st.get('qi') is not None and isinstance(st['qi'], np.ndarray) and st['qi'].flags.writeable:
                st['qi'] += 5          # the caller owns what was returned to it
            elif how == 'permute' and len(q0) > 1:
                perm = np.random.Generator(np.random.PCG64(op['sub'])).permutation(len(q0))
                q0[:] = q0[perm]
                A[:] = A[perm, :]
            elif how == 'refill':
                # the caller reuses its buffers for new data: new column charges, new entries on the allowed support
                g_ = np.random.Generator(np.random.PCG64(op['sub']))
                q1[:] = q0[g_.integers(0, len(q0), size=len(q1))]
                newA = g_.normal(size=A.shape) + (1j * g_.normal(size=A.shape) if np.iscomplexobj(A) else 0)
                A[:] = np.where(np.equal.outer(q0, q1), newA, 0)
            # Observation only (no property speaks about kernel results aliasing kernel arguments, and the unchanged
            # library itself returns q0[:1], a view of the caller's q0, as intermediate charges in the disjoint branch):
            if not all(x.tobytes() == b for x, b in kept):
                self.probe('kernel_result_is_view_of_argument')
            self.probe('kernel_reused_arrays_after_inplace_update')
        else:
            o = self.pick(op['sel'], 'mps', lambda x: all(dn.is_int_1d_array(q) for q in x.ref.qD) and dn.is_int_1d_array(x.ref.qd)
                          and not any(np.issubdtype(a.dtype, np.integer) for a in x.ref.A))
            if o is None:
                return 'skipped'
            r = o.ref
            i = int(op['site']) % len(r.A)
            T = np.array(r.A[i])
            A = T.reshape(T.shape[0] * T.shape[1], T.shape[2]).copy()
            q0 = np.add.outer(np.asarray(r.qd), np.asarray(r.qD[i])).reshape(-1).copy()
            q1 = np.array(r.qD[i + 1])
            qdt = op.get('qdtype')
            if qdt:
                # the caller's charge vectors in a narrower / unsigned integer type (values unchanged)
                dt_ = np.dtype(qdt)
                info = np.iinfo(dt_)
                if min(int(q0.min()), int(q1.min())) >= max(info.min // 2, -2 ** 40) and max(int(q0.max()), int(q1.max())) <= min(info.max // 2, 2 ** 40):
                    q0 = q0.astype(dt_)
                    q1 = q1.astype(dt_)
                    self.probe('kernel_charge_dtype_' + qdt)
            mag = op.get('magnitude', 'normal')
            if which == 'qr' and mag == 'tiny':
                A = A * 2.0 ** -560
                self.probe('kernel_extreme_small')
            elif which == 'qr' and mag == 'huge':
                A = A * 2.0 ** 540
                self.probe('kernel_extreme_large')
        tol = float(op.get('tol', 0.0))
        fnw = self.seams.wrapped['qr'] if which == 'qr' else self.seams.wrapped['split_matrix_svd']
        snap = self.snapshot_pool()
        Ab0, q0b0, q1b0 = A.tobytes(), q0.tobytes(), q1.tobytes()
        self.env.begin_op(op.get('env', {}))
        exc = None
        out = None
        try:
            out = fnw(A, q0, q1) if which == 'qr' else fnw(A, q0, q1, tol)
        except Exception as e:   # noqa
            exc = e
        finally:
            self.env.end_op()
        self.compare_pool(snap, set(), 'operand_or_bystander_modified')
        if exc is not None:
            self.kernel_state = None
            from .seams import InjectedBackendFailure, environmental_exception
            if isinstance(exc, InjectedBackendFailure) or (environmental_exception(exc, op.get('env')) and 'GLOBALS' in self.env.enabled):
                # an injected backend failure may propagate; the caller's arrays must be intact (checked below)
                self.check(A.tobytes() == Ab0 and q0.tobytes() == q0b0 and q1.tobytes() == q1b0, ['C19', 'C11' if which == 'qr' else 'C12'],
                           'inputs_unmodified_after_failure', f'{which} kernel modified its arguments before failing')
                return 'injected'
            self.check(False, ['C11'] if which == 'qr' else ['C12'], 'raised', f'{which} kernel: {type(exc).__name__}: {exc}')
            return 'raised'
        self.kernel_state = {'which': which, 'A': A, 'q0': q0, 'q1': q1, 'qi': out[2] if which == 'qr' else out[3],
                             'out': [x for x in out if isinstance(x, np.ndarray)]}
        return 'ok'

    # ================================ pure arithmetic =======================================
    def compat_sum(self, a):
        def pred(b):
            ra, rb = a.ref, b.ref
            try:
                return (np.array_equal(ra.qd, rb.qd) and np.array_equal(ra.qD[0], rb.qD[0]) and np.array_equal(ra.qD[-1], rb.qD[-1])
                        and len(ra.A) == len(rb.A))
            except Exception:
                return False
        return pred

    def _binary(self, op, a, b, fn, want, owners, kind, tag):
        sc = a.scale * b.scale if tag in ('matmul', 'apply') else a.scale + b.scale
        st, ref = self.guarded(op, fn, operands=(a, b), owners=owners)
        if st != 'ok':
            return st
        o = self.add_obj(kind, ref, tag)
        o.prec = max(o.prec, a.prec, b.prec)
        self.check_c02(o, f'{tag} result')
        if o.retired:
            self.unusable(o, ['C03', 'C02'], f'{tag} returned an object that cannot be contracted')
            return 'ok'
        dev = float(np.linalg.norm(o.dense - want))
        self.check(dev <= TOL * max(sc, float(np.linalg.norm(want))) * o.prec, 'C03', tag + '_dense', lambda: f'|dense({tag}) - expected|={dev:.3e} scale={sc:.3e}')
        self.scribble(o)
        return 'ok'

    def op_add(self, op, sign=1):
        kind = op.get('kind', 'mps')
        a = self.pick(op['a'], kind)
        if a is None:
            return 'skipped'
        b = self.pick(op['b'], kind, self.compat_sum(a))
        if b is None:
            return 'skipped'
        if kind == 'mpo' and max(x + y for x, y in zip(bond_dims(a.ref, 'mpo'), bond_dims(b.ref, 'mpo'))) > 64:
            return 'skipped'
        if kind == 'mps' and max(x + y for x, y in zip(bond_dims(a.ref, 'mps'), bond_dims(b.ref, 'mps'))) > 96:
            return 'skipped'
        if len(a.ref.A) == 1:
            self.probe('add_L1')
        if a is b:
            self.probe('add_same_object')
        fn = (lambda: a.ref + b.ref) if sign == 1 else (lambda: a.ref - b.ref)
        return self._binary(op, a, b, fn, a.dense + sign * b.dense, ('C03',), kind, 'add' if sign == 1 else 'sub')

    def op_sub(self, op):
        return self.op_add(op, sign=-1)

    def op_matmul(self, op):
        a = self.pick(op['a'], 'mpo')
        if a is None:
            return 'skipped'
        b = self.pick(op['b'], 'mpo', lambda x: self.qd_eq(a, x))
        if b is None:
            return 'skipped'
        if max(x * y for x, y in zip(bond_dims(a.ref, 'mpo'), bond_dims(b.ref, 'mpo'))) > 64:
            return 'skipped'
        return self._binary(op, a, b, lambda: a.ref @ b.ref, a.dense @ b.dense, ('C03',), 'mpo', 'matmul')

    def op_apply(self, op):
        a = self.pick(op['a'], 'mpo')
        if a is None:
            return 'skipped'
        b = self.pick(op['b'], 'mps', lambda x: self.qd_eq(a, x))
        if b is None:
            return 'skipped'
        if max(x * y for x, y in zip(bond_dims(a.ref, 'mpo'), bond_dims(b.ref, 'mps'))) > 96:
            return 'skipped'
        return self._binary(op, a, b, lambda: self.ptn.apply_operator(a.ref, b.ref), a.dense @ b.dense, ('C03',), 'mps', 'apply')

    # ===================================== reads =================================================
    def _read(self, op, operands, fn, owners):
        return self.guarded(op, fn, operands=operands, owners=owners, c02_listed=False)

    def int_operand(self, *objs):
        """C04 quantifies over real / complex entries: integer tensors (silent int64 wrap-around) are outside it."""
        if any(np.issubdtype(a.dtype, np.integer) for o in objs for a in o.ref.A):
            self.skip('c04_integer_entries_outside_domain')
            return True
        return False

    def int_may_wrap(self, o):
        """Integer-typed tensors are contracted in int64 by numpy; once a partial product can exceed 2^62 (long chains of
        integer tensors) the silent wrap-around is numpy's, outside what C03 quantifies over (cf. the C04 skip)."""
        if any(np.issubdtype(a.dtype, np.integer) for a in o.ref.A) and o.scale >= 2.0 ** 62:
            self.skip('integer_contraction_may_wrap_int64_outside_domain')
            return True
        return False

    def op_as_vector(self, op):
        o = self.pick(op['sel'], 'mps')
        if o is None:
            return 'skipped'
        st, v = self._read(op, (o,), lambda: o.ref.as_vector(), ('C03',))
        if st != 'ok':
            return st
        v = np.asarray(v)
        if self.int_may_wrap(o):
            return 'ok'
        ok = v.shape == o.dense.shape
        dev = float(np.linalg.norm(v - o.dense)) if ok else np.inf
        self.check(ok and dev <= TOL * o.scale * o.prec, 'C03', 'as_vector', lambda: f'|as_vector - contraction|={dev:.3e}')
        return 'ok'

    def op_as_matrix(self, op):
        o = self.pick(op['sel'], 'mpo')
        if o is None:
            return 'skipped'
        sp = bool(op.get('sparse'))
        st, M = self._read(op, (o,), lambda: o.ref.as_matrix(sparse_format=sp), ('C03',))
        if st != 'ok':
            return st
        if sp:
            try:
                M = M.toarray()
            except Exception as e:
                self.check(False, 'C03', 'as_matrix_sparse_type', f'{type(M).__name__}: {e}')
                return 'ok'
        M = np.asarray(M)
        if self.int_may_wrap(o):
            return 'ok'
        ok = M.shape == o.dense.shape
        dev = float(np.linalg.norm(M - o.dense)) if ok else np.inf
        self.check(ok and dev <= TOL * o.scale * o.prec, 'C03', 'as_matrix_sparse' if sp else 'as_matrix_dense', lambda: f'|as_matrix - contraction|={dev:.3e} shape {M.shape}')
        return 'ok'

    def _scalar_ok(self, got, want, sc, clause, prec=1.0):
        try:
            g = complex(got)
            ok = np.isfinite(g.real) and np.isfinite(g.imag)
        except Exception:
            ok = False
            g = got
        self.check(ok and abs(g - want) <= TOL * sc * prec, 'C04', clause, lambda: f'got {g!r}, dense value {want!r} (scale {sc:.3e})')

    def op_vdot(self, op):
        a = self.pick(op['a'], 'mps')
        b = self.pick(op['b'], 'mps')
        if a is None or b is None or self.int_operand(a, b):
            return 'skipped'
        st, x = self._read(op, (a, b), lambda: self.ptn.vdot(a.ref, b.ref), ('C04',))
        if st != 'ok':
            return st
        self._scalar_ok(x, np.vdot(a.dense, b.dense), a.scale * b.scale, 'vdot', self.P(a, b))
        return 'ok'

    def op_norm(self, op):
        a = self.pick(op['sel'], 'mps')
        if a is None or self.int_operand(a):
            return 'skipped'
        st, x = self._read(op, (a,), lambda: self.ptn.norm(a.ref), ('C04',))
        if st != 'ok':
            return st
        nv = float(np.linalg.norm(a.dense))
        if nv <= 1e-6 * a.scale:
            self.skip('norm_of_cancelled_state')
            return 'ok'
        self._scalar_ok(x, nv, a.scale, 'norm', self.P(a))
        return 'ok'

    def op_op_avg(self, op):
        psi = self.pick(op['psi'], 'mps')
        if psi is None:
            return 'skipped'
        H = self.pick(op['H'], 'mpo')
        if H is None or self.int_operand(psi, H):
            return 'skipped'
        st, x = self._read(op, (psi, H), lambda: self.ptn.operator_average(psi.ref, H.ref), ('C04',))
        if st != 'ok':
            return st
        self._scalar_ok(x, np.vdot(psi.dense, H.dense @ psi.dense), psi.scale ** 2 * H.scale, 'operator_average', self.P(psi, H))
        return 'ok'

    def op_op_inner(self, op):
        chi = self.pick(op['chi'], 'mps')
        psi = self.pick(op['psi'], 'mps')
        H = self.pick(op['H'], 'mpo')
        if chi is None or psi is None or H is None or self.int_operand(chi, psi, H):
            return 'skipped'
        st, x = self._read(op, (chi, psi, H), lambda: self.ptn.operator_inner_product(chi.ref, H.ref, psi.ref), ('C04',))
        if st != 'ok':
            return st
        self._scalar_ok(x, np.vdot(chi.dense, H.dense @ psi.dense), chi.scale * psi.scale * H.scale, 'operator_inner_product', self.P(chi, psi, H))
        return 'ok'

    def op_op_density(self, op):
        a = self.pick(op['a'], 'mpo')
        b = self.pick(op['b'], 'mpo')
        if a is None or b is None or self.int_operand(a, b):
            return 'skipped'
        st, x = self._read(op, (a, b), lambda: self.ptn.operator_density_average(a.ref, b.ref), ('C04',))
        if st != 'ok':
            return st
        self._scalar_ok(x, np.trace(b.dense @ a.dense), a.scale * b.scale, 'operator_density_average', self.P(a, b))
        return 'ok'

    def op_env_blocks(self, op):
        ptn = self.ptn
        psi = self.pick(op['psi'], 'mps')
        if psi is None:
            return 'skipped'
        H = self.pick(op['H'], 'mpo')
        if H is None or self.int_operand(psi, H):
            return 'skipped'
        A = psi.ref.A
        W = H.ref.A
        L = len(A)
        M = H.dense
        g = np.random.Generator(np.random.PCG64(op['sub']))

        def blocks():
            BR = ptn.compute_right_operator_blocks(psi.ref, H.ref)
            BL = [None] * L
            BL[0] = np.ones((1, 1, 1), dtype=complex)
            for i in range(L - 1):
                BL[i + 1] = ptn.operation.contraction_operator_step_left(A[i], A[i], W[i], BL[i])
            return BL, BR
        st, res = self._read(op, (psi, H), blocks, ('C04',))
        if st != 'ok':
            return st
        BL, BR = res
        # history: the returned blocks belong to the caller; writing into them must not influence a later call
        keep = [np.array(b) for b in BR]
        for b in BR:
            if isinstance(b, np.ndarray) and b.flags.writeable:
                b *= 1.5
        st2, BR2 = self._read(op, (psi, H), lambda: ptn.compute_right_operator_blocks(psi.ref, H.ref), ('C04',))
        if st2 != 'ok':
            return st2
        same = len(BR2) == len(keep) and all(np.shape(x) == np.shape(y) and np.allclose(x, y, rtol=1e-12, atol=0) for x, y in zip(BR2, keep))
        self.check(same, 'C04', 'blocks_independent_of_earlier_results', 'compute_right_operator_blocks returned different blocks after the caller wrote into the blocks of an earlier call')
        BR = [np.array(b) for b in keep]
        An = [float(np.linalg.norm(a)) or 1.0 for a in A]
        hsc = H.scale

        fortran = bool(op.get('env', {}).get('layout')) and 'LAYOUT' in self.env.enabled

        def rnd(shape):
            x = g.normal(size=shape) + 1j * g.normal(size=shape)
            return np.asfortranarray(x) if fortran else x
        if fortran:
            # caller-owned blocks may have any memory layout
            BL = [np.asfortranarray(b) for b in BL]
            BR = [np.asfortranarray(b) for b in BR]
            self.env.fire('LAYOUT')

        def judge(lhs, rhs, sc, clause, i):
            self.check(abs(lhs - rhs) <= TOL * sc, 'C04', clause, lambda: f'site/bond {i}: <Y|Heff X>={lhs!r} vs dense {rhs!r} (scale {sc:.3e})')
        herm_site = int(g.integers(0, L))
        for i in range(L):
            if self.stop:
                break
            X, Y = rnd(A[i].shape), rnd(A[i].shape)
            st, HX = self._read(op, (psi, H), lambda: ptn.apply_local_hamiltonian(BL[i], BR[i], W[i], X), ('C04',))
            if st != 'ok':
                return st
            sc = hsc * np.prod([An[j] for j in range(L) if j != i]) ** 2 * float(np.linalg.norm(X)) * float(np.linalg.norm(Y))
            vx = dn.replace_site_vector(A, i, X)
            vy = dn.replace_site_vector(A, i, Y)
            judge(np.vdot(Y, HX), np.vdot(vy, M @ vx), sc, 'one_site_projection', i)
            n = X.size
            if i == herm_site and H.herm and n <= 48:
                Heff = np.zeros((n, n), dtype=complex)
                for k in range(n):
                    e = np.zeros(n, dtype=complex)
                    e[k] = 1
                    Heff[:, k] = ptn.apply_local_hamiltonian(BL[i], BR[i], W[i], e.reshape(A[i].shape)).reshape(-1)
                dev = float(np.abs(Heff - Heff.conj().T).max())
                sce = hsc * np.prod([An[j] for j in range(L) if j != i]) ** 2
                self.check(dev <= TOL * sce, 'C04', 'one_site_hermitian', lambda: f'site {i}: |Heff - Heff^H|={dev:.3e} scale {sce:.3e}')
        for i in range(L - 1):
            if self.stop:
                break
            Wm = ptn.merge_mpo_tensor_pair(W[i], W[i + 1])
            shp = (A[i].shape[0] * A[i + 1].shape[0], A[i].shape[1], A[i + 1].shape[2])
            X, Y = rnd(shp), rnd(shp)
            st, HX = self._read(op, (psi, H), lambda: ptn.apply_local_hamiltonian(BL[i], BR[i + 1], Wm, X), ('C04',))
            if st != 'ok':
                return st
            rest = [An[j] for j in range(L) if j not in (i, i + 1)]
            sc = hsc * np.prod(rest) ** 2 * float(np.linalg.norm(X)) * float(np.linalg.norm(Y))
            B = list(A[:i]) + [None] + list(A[i + 2:])
            B[i] = X
            vx = dn.mps_to_vector(B)
            B[i] = Y
            vy = dn.mps_to_vector(B)
            judge(np.vdot(Y, HX), np.vdot(vy, M @ vx), sc, 'two_site_projection', i)
            # bond (zero-site) operator on bond i+1
            Db = A[i].shape[2]
            C, Yc = rnd((Db, Db)), rnd((Db, Db))
            st, HC = self._read(op, (psi, H), lambda: ptn.apply_local_bond_contraction(BL[i + 1], BR[i], C), ('C04',))
            if st != 'ok':
                return st
            sc = hsc * np.prod(An) ** 2 * float(np.linalg.norm(C)) * float(np.linalg.norm(Yc))
            Bc = list(A)
            Bc[i] = np.einsum('plb,bc->plc', A[i], C)
            vx = dn.mps_to_vector(Bc)
            Bc[i] = np.einsum('plb,bc->plc', A[i], Yc)
            vy = dn.mps_to_vector(Bc)
            judge(np.vdot(Yc, HC), np.vdot(vy, M @ vx), sc, 'bond_projection', i)
        return 'ok'
