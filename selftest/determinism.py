#!/venv/bin/python
"""
Determinism self-test (DESIGN 8.1): every (property, k) session is executed in several fresh
interpreters -- different worker counts, different PYTHONHASHSEED -- and the event-log digests are
compared.  Exit 0 iff all digests agree.   usage: selftest/determinism.py [n_per_prop=120]
"""
import json, os, subprocess, sys
from concurrent.futures import ThreadPoolExecutor

VERIF = os.path.dirname(os.path.dirname(os.path.abspath(__file__)))
PROPS = 'C01 C02 C03 C04 C05 C08 C09 C10 C11 C12 C13 C14 C15 C16 C17 C19 C20'.split()
CODE = r'''
import sys, json
sys.path.insert(0, %r)
from pvsim import engine
from pvsim.run1 import execute
prop, k0, k1 = sys.argv[1], int(sys.argv[2]), int(sys.argv[3])
out = {}
for k in range(k0, k1):
    s = engine.make(prop, 'quick', 7, k)
    try:
        out[k] = execute(s)['digest']
    except Exception as e:
        out[k] = 'ERR-' + type(e).__name__
print(json.dumps(out))
''' % VERIF


def run(prop, k0, k1, hashseed):
    env = dict(os.environ, PYTHONHASHSEED=str(hashseed), OPENBLAS_NUM_THREADS='1', OMP_NUM_THREADS='1', PYTHONWARNINGS='ignore')
    p = subprocess.run(['/venv/bin/python', '-c', CODE, prop, str(k0), str(k1)], env=env, capture_output=True, text=True)
    return json.loads(p.stdout.strip().splitlines()[-1])


def sweep(n, nproc, hashseed):
    step = max(1, n // max(1, nproc // len(PROPS) or 1))
    jobs = [(p, a, min(n, a + step)) for p in PROPS for a in range(0, n, step)]
    res = {}
    with ThreadPoolExecutor(max_workers=nproc) as ex:
        for (p, a, b), r in zip(jobs, ex.map(lambda j: run(j[0], j[1], j[2], hashseed), jobs)):
            for k, d in r.items():
                res[(p, int(k))] = d
    return res


def main():
    n = int(sys.argv[1]) if len(sys.argv) > 1 else 120
    a = sweep(n, 16, 0)
    b = sweep(n, 3, 12345)
    c = sweep(n, 16, 99)
    bad = [k for k in a if not (a[k] == b.get(k) == c.get(k))]
    errs = [k for k in a if str(a[k]).startswith('ERR')]
    print(f'determinism: {len(a)} sessions x 3 fresh-interpreter runs (16 procs hashseed 0, 3 procs hashseed 12345, 16 procs hashseed 99): '
          f'{len(bad)} mismatching, {len(errs)} harness errors')
    os.makedirs(os.path.join(VERIF, 'reports'), exist_ok=True)
    json.dump({'sessions': len(a), 'runs_each': 3, 'mismatch': [list(k) for k in bad], 'errors': [list(k) for k in errs]},
              open(os.path.join(VERIF, 'reports', 'determinism.json'), 'w'), indent=1)
    sys.exit(0 if not bad and not errs else 2)


if __name__ == '__main__':
    main()
