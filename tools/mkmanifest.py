#!/venv/bin/python
"""Regenerates /verif/MANIFEST.json from the table below (run after changing the set of claimed checks)."""
import json, os, sys
sys.path.insert(0, os.path.dirname(os.path.dirname(os.path.abspath(__file__))))
BUILT = sys.argv[1].split(',') if len(sys.argv) > 1 else None

TECH = 'deterministic simulation: seeded op-history x environment-fault sessions against a reference model'
CHECKS = {
 'C01': ('6 C01', 'in-place orthonormalize transitions of MPS/MPO inside simulated sessions refine the dense model (factor, reconstruction, isometry, unit norm, bond bound) under QRSIGN/ULP/LAYOUT environment faults and int/real/complex entries',
         'orthonormalize is reached after every other op kind (sums, products, truncations, edits), so over-complete, rank-deficient, zero and re-canonicalised inputs are sampled, not enumerated'),
 'C02': ('6 C02', 'block-sparsity, label-length and boundary-charge invariants are evaluated with an independent mask after every step of mixed op histories (all listed op kinds, all gauge kinds); an exception inside a listed op counts as violation',
         'sampled histories of bounded length (<=30 ops) on systems with d^L <= 1024; Hamiltonian constructors are run inside histories'),
 'C03': ('6 C03', 'op-by-op refinement of the dense model along chained expressions (+,-,@,apply,identity,as_vector,as_matrix dense/sparse,from_vector tol=0,split/merge tol=0 for the three distributions)',
         'dense oracle is my own contraction (never as_vector/as_matrix); sizes bounded by the dense cap'),
 'C04': ('6 C04', 'inner products, expectation values, traces and one-site / two-site / bond effective operators are read at random points of histories (all canonical forms the library produces) and compared with dense values; Hermiticity of the one-site effective operator for Hermitian MPOs',
         'reads are sampled at random history points; effective operators checked through random probe tensors (bilinear form), Hermiticity by assembling the matrix when it is at most 48x48'),
 'C08': ('6 C08', 'norm, energy (drift accumulated from the start of the trajectory), returned norm, Hamiltonian bytes, single-site bond dimensions and boundary charges are monitored after every TDVP call of repeated/interleaved single- and two-site trajectories under gauge faults',
         'H restricted to MPOs whose dense matrix is Hermitian; |dt| ||H|| <= 2; dense sizes bounded'),
 'C09': ('6 C09', 'TDVP trajectories refine exp(-dt n H) on the sub-class where the statement is a theorem (one-sided complete at every cut, DESIGN 7.6), and forward/backward histories return to the start, under gauge faults',
         'premise narrowed as documented (never widened); Krylov exactness ensured by numiter>=12 with |dt|||H||<=0.5 or numiter >= local dimension'),
 'C10': ('6 C10', 'after every DMRG call of a sweep history: unit norm, state/energy consistency, variational bound against the exact sector ground energy, bound by the start energy (chained across calls), monotonicity, Hamiltonian unchanged; exact ground state on complete manifolds',
         'sector ground energy from dense diagonalisation; two-site clauses that presuppose zero split tolerance are only judged then'),
 'C11': ('6 C11', 'call-boundary monitor on every block qr the system issues during sessions (orthonormalize, TDVP, DMRG) and on direct kernel calls with caller-owned arrays that persist, are updated in place and passed again (also with magnitudes 2^-560 / 2^540 and charges up to 2^58), with QRSIGN/TIEORDER/ULP/LAYOUT/RAISE injected underneath it',
         'inputs are those the public in-place API produces (with d=1 the kernel sees arbitrary charge vectors chosen by the session); integer-typed input is outside the property and skipped'),
 'C12': ('6 C12', 'call-boundary monitors on every split_matrix_svd / retained_bond_indices call issued during sessions (compress, two-site TDVP/DMRG, split_mps_tensor with the three distributions, from_vector) and on direct kernel calls with persistent caller-owned arrays, with SVDPHASE/SVDROT/TIEORDER/ULP/RAISE injected underneath',
         'threshold decisions within a 1e-9 guard band of the tolerance are skipped and counted'),
 'C05': ('6 C05', 'from_opchains programs are compiled and compared exactly (Fraction coefficients, both traversal directions) with the sum of identity-padded chains; MPO.from_opgraph is applied to any graph of the pool, in particular graphs reached through rewrite histories, and compared densely under seeded charge-consistent operator maps, incl. bond charges and the node map',
         'first clause is seeded program generation only (no history or seam in it); coefficients are dyadic so that all arithmetic is exact'),
 'C14': ('6 C14', 'Lanczos/Arnoldi driven by a simulated user callback (fresh / returns its argument / reused buffer / read-only result / memoising; persistent callback and vector updated in place between calls) on session matrices with exact invariant subspaces (n up to 96), plus monitors on every Lanczos call TDVP and DMRG issue; classification into regular / exhausted / grey by a re-orthogonalised reference',
         'maps scaled to ||A|| in [0.25, 8] (the breakdown threshold is absolute); grey-zone cases and Lanczos vectors beyond the first Ritz convergence (Paige) are skipped and counted'),
 'C15': ('6 C15', 'eigh_krylov / expm_krylov (both branches) under the same simulated callbacks and EIGSIGN/ULP faults, plus monitors on the Krylov calls of TDVP/DMRG: Ritz bounds, norm preservation, exactness once the Krylov space is exhausted',
         'same input class as C14; clauses that presuppose an orthonormal basis are not judged when the routine ran past exhaustion on a noise direction'),
 'C16': ('6 C16', 'rewrite histories (simplify, merge_edges, rename_*, add with id collisions and self-addition, flip, deepcopy) on graphs from all constructors vs the exact polynomial model after every step; consistency, size monotonicity and idempotence of simplify; other graph untouched by add',
         'pure history property: no environment seam applies (no LAPACK, no callbacks)'),
 'C17': ('6 C17', 'from_optrees / from_automaton programs (incl. site-dependent callables recorded by the simulator) vs the symbolic path sum, exactly; dense meaning of chains, trees and of any graph of the pool (after rewrite histories) vs the symbolic meaning under seeded operator maps',
         'first two clauses are seeded program generation only; automata without an accepting path are outside the property and skipped'),
 'C19': ('6 C19', 'around every op of long mixed histories in all three worlds: byte snapshots of every live object except the documented target; scribble test on every returned MPS/MPO/graph (also against argument arrays, operator maps, chain and automaton objects); write-protected operands (WPROT); injected backend failures (RAISE) inside in-place ops; user-built objects sharing tensor arrays; callback-owned arrays of memoising Krylov callbacks; shared-object identity checks for graphs',
         'literal scope: returned plain arrays/scalars are not covered by the no-sharing clause; OpGraph(nodes, edges) adopts the objects it is given by design'),
 'C20': ('6 C20', 'bond dimensions of model Hamiltonians built inside sessions vs numerical operator-Schmidt ranks of the dense model; layer widths of from_opchains graphs vs number of non-zero chains; widths across every simplify of rewrite histories',
         'clause 1 is seeded parameter generation with an independent numerical oracle (clean rank gap required, else skipped)'),
 'C13': ('6 C13', 'compress / from_vector transitions inside histories vs the dense model: returned norm, scale range, canonical form, bond monotonicity, exact error identity (squared form), first-cut count with guard band, tol=0 exactness',
         'states with cancellation (scale/norm > 1e5) are skipped and counted'),
}
NA = {
 'C06': 'pure function of (L, parameters): no state, history, schedule or environment seam in any clause; a check would be parameter sampling against a formula, which is not deterministic simulation (DESIGN 6, C06)',
 'C07': 'pure function of (L, coefficient tensors, optimize flag, rotation): no state, history or seam in any clause (DESIGN 6, C07)',
 'C18': 'pure combinatorial function of a bipartite graph; no state or seam, and its own quantifier asks for exhaustive enumeration of small scopes, which is model checking, not this technique (DESIGN 6, C18)',
}
PENDING = {}

def main():
    checks = []
    for pid, (ref, text, note) in CHECKS.items():
        if BUILT is not None and pid not in BUILT:
            PENDING[pid] = 'check not yet built in this round (planned, DESIGN 6 %s)' % pid
            continue
        checks.append({
            'property_id': pid,
            'quick_cmd': f'./check {pid} --tier quick',
            'thorough_cmd': f'./check {pid} --tier thorough',
            'evidence_file': f'/verif/evidence/{pid}.json',
            'replay_cmd_template': './check --replay {path}',
            'engine': 'pvsim',
            'level_claimed': {'category': 'exploration', 'text': text + '. Seeded search over sessions; nothing is enumerated or proved.', 'design_ref': ref},
            'level_note': note + '. Trusted base: unpatched numpy/scipy/LAPACK on the oracle side, the harness\' own contraction / polynomial evaluators, legality arguments of DESIGN 4.4.',
            'technique': TECH,
        })
    na = [{'property_id': k, 'reason': v} for k, v in {**NA, **PENDING}.items()]
    man = {
        'version': 1,
        'setup_cmd': "/venv/bin/python -c \"import sys; sys.path.insert(0,'/repo'); import numpy, scipy, pytenet; print('pvsim setup ok', numpy.__version__, scipy.__version__)\"",
        'hooks': {'guard': 'PYTENET_VERIF_SIM', 'enable': 'no source hook exists: seams are module attributes of pytenet rebound by the harness at run time (DESIGN 4.3); checks import pytenet from /repo working tree',
                  'baseline_off_cmd': 'cd /repo && /venv/bin/python -m pytest -ra -q -p no:cacheprovider --timeout=900 --continue-on-collection-errors',
                  'source_commits': [], 'add_only': True},
        'engines': [{'name': 'pvsim', 'path': '/verif/pvsim', 'serves_properties': [c['property_id'] for c in checks],
                     'kind_free_text': 'deterministic simulation with environment-fault injection: seeded sessions of public-API operation histories, reference models, call-boundary monitors, ddmin shrinking, JSON replay'}],
        'checks': checks,
        'not_applicable': na,
        'notes': 'Every check also injects process-global caller state per operation (GLOBALS: numpy error state, print options, warnings filter, global RNG state) and runs 5-6 % of its sessions in a python -O interpreter (DESIGN 11.4 round 7, 11.6). Sensitivity: 280 independently seeded changes under /verif/seeded (reports/seeded_matrix.md, DESIGN 11.4). VERIF_SEED / --seed selects the batch; VERIF_BUDGET_S bounds the thorough tier (default 600 s); PYTENET_SRC overrides the source tree (sensitivity runs only). fix: commits in /repo: see known_findings.json.',
    }
    with open(os.path.join(os.path.dirname(os.path.dirname(os.path.abspath(__file__))), 'MANIFEST.json'), 'w') as f:
        json.dump(man, f, indent=1)
    print('claimed', [c['property_id'] for c in checks], 'not_applicable', [x['property_id'] for x in na])

if __name__ == '__main__':
    main()
