#!/bin/bash
# runs every claimed check once (tier $1, default quick) at VERIF_SEED (default 0) and prints a one-line summary each
cd "$(dirname "$0")/.."
tier=${1:-quick}
for p in C01 C02 C03 C04 C05 C08 C09 C10 C11 C12 C13 C14 C15 C16 C17 C19 C20; do
  out=$(./check $p --tier $tier 2>&1); rc=$?
  echo "$p rc=$rc $(echo "$out" | grep -E '^sessions=' )"
  [ $rc -ne 0 ] && echo "$out" | grep -E "violation:|VIOLATION|HARNESS|INCONCL|KNOWN" | head -5
done
