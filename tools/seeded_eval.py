#!/venv/bin/python
"""
Run checks against the seeded changes kept under /verif/seeded/<name>/ (patch.diff + meta.json).
Each patch is applied to a scratch worktree of /repo HEAD under ${TMPDIR:-/tmp} (never to /repo,
which background runs may be using), the checks listed in meta.json["checks"] (default: the
property it breaks) are run with PYTENET_SRC pointing at it, and the worktree is removed.
Writes /verif/reports/seeded_matrix.json.
usage: tools/seeded_eval.py [name ...] [--all-checks] [--tier quick]
"""
import json, os, subprocess, sys, tempfile, time, shutil

VERIF = os.path.dirname(os.path.dirname(os.path.abspath(__file__)))
ALL = 'C01 C02 C03 C04 C05 C08 C09 C10 C11 C12 C13 C14 C15 C16 C17 C19 C20'.split()


def run(cmd, **kw):
    return subprocess.run(cmd, shell=True, capture_output=True, text=True, **kw)


def main():
    args = [a for a in sys.argv[1:] if not a.startswith('--')]
    allchecks = '--all-checks' in sys.argv
    names = args or sorted(d for d in os.listdir(os.path.join(VERIF, 'seeded')) if os.path.isdir(os.path.join(VERIF, 'seeded', d)))
    out_path = os.path.join(VERIF, 'reports', 'seeded_matrix.json')
    for a in sys.argv[1:]:
        if a.startswith('--out='):
            out_path = a.split('=', 1)[1]       # a second concurrent evaluation must write elsewhere; merge with --merge=
        if a.startswith('--merge='):
            m = json.load(open(out_path)) if os.path.exists(out_path) else {}
            m.update(json.load(open(a.split('=', 1)[1])))
            json.dump(m, open(out_path, 'w'), indent=1)
            print('merged into', out_path)
            return
    matrix = json.load(open(out_path)) if os.path.exists(out_path) else {}
    for name in names:
        sd = os.path.join(VERIF, 'seeded', name)
        if not os.path.exists(os.path.join(sd, 'meta.json')):
            print(name, 'not imported, skipped')
            continue
        meta = json.load(open(os.path.join(sd, 'meta.json')))
        wt = tempfile.mkdtemp(prefix='pvsim_seed_', dir=os.environ.get('TMPDIR', '/tmp'))
        os.rmdir(wt)
        r = run(f'git -C /repo worktree add -q --detach {wt} HEAD')
        assert r.returncode == 0, r.stderr
        try:
            r = run(f'git -C {wt} apply {sd}/patch.diff')
            if r.returncode != 0:
                print(name, 'PATCH DOES NOT APPLY', r.stderr[:200])
                matrix[name] = {'error': 'patch does not apply'}
                continue
            checks = ALL if allchecks else meta.get('checks', [meta['property']])
            res = {}
            for c in checks:
                t0 = time.time()
                env = dict(os.environ, PYTENET_SRC=wt)
                p = subprocess.run([os.path.join(VERIF, 'check'), c, '--tier', 'quick', '--no-determinism'], cwd=VERIF, env=env, capture_output=True, text=True)
                lines = [l for l in p.stdout.splitlines() if l.startswith('  violation:') or l.startswith('VIOLATION')]
                res[c] = {'rc': p.returncode, 'wall_s': round(time.time() - t0, 1), 'first': lines[0][:300] if lines else ''}
                # replay files of seeded runs are scratch
                for l in p.stdout.splitlines():
                    if l.startswith('VIOLATION') and 'replay=' in l:
                        f = l.split('replay=')[1].strip()
                        if os.path.exists(f):
                            os.remove(f)
                print(name, c, 'rc', p.returncode, res[c]['first'][:160], flush=True)
            matrix[name] = {'property': meta['property'], 'results': res, 'detected_by': [c for c, v in res.items() if v['rc'] == 1]}
        finally:
            run(f'git -C /repo worktree remove --force {wt}')
            shutil.rmtree(wt, ignore_errors=True)
        json.dump(matrix, open(out_path, 'w'), indent=1)
    print('matrix written to', out_path)


if __name__ == '__main__':
    main()
