#!/venv/bin/python
"""
Confirm and import seeded changes delivered by sub-agents in /tmp/mut_out/<PID>/m<k>_{patch.diff,demo.py,notes.md}:
  - patch applies to a scratch worktree of /repo HEAD
  - demo exits 0 on the clean tree and non-zero with the change
  - the repository's test-suite still passes with the change
Confirmed changes are copied to /verif/seeded/<PID>_m<k>/ with meta.json.   usage: tools/seeded_import.py C04 [C05 ...] [--skip-tests]
"""
import json, os, shutil, subprocess, sys, tempfile

VERIF = os.path.dirname(os.path.dirname(os.path.abspath(__file__)))
ENV = dict(os.environ, OPENBLAS_NUM_THREADS='1', OMP_NUM_THREADS='1', MKL_NUM_THREADS='1', PYTHONWARNINGS='ignore')


def sh(cmd, cwd=None, timeout=3600):
    return subprocess.run(cmd, shell=True, cwd=cwd, env=ENV, capture_output=True, text=True, timeout=timeout)


def main():
    pids = [a for a in sys.argv[1:] if not a.startswith('--')]
    skip_tests = '--skip-tests' in sys.argv
    root = '/tmp/mut_out'
    tag = ''
    for a in sys.argv[1:]:
        if a.startswith('--src='):
            root = a[6:]
        if a.startswith('--tag='):
            tag = a[6:]
    for pid in pids:
        src = f'{root}/{pid}'
        for k in (1, 2, 3, 4):
            patch = f'{src}/m{k}_patch.diff'
            demo = f'{src}/m{k}_demo.py'
            if not (os.path.exists(patch) and os.path.exists(demo)):
                continue
            name = f'{pid}_{tag}m{k}'
            wt = tempfile.mkdtemp(prefix='pvsim_imp_', dir='/tmp')
            os.rmdir(wt)
            assert sh(f'git -C /repo worktree add -q --detach {wt} HEAD').returncode == 0
            try:
                clean = sh(f'PYTHONPATH=. /venv/bin/python {demo}', cwd=wt, timeout=900)
                ap = sh(f'git -C {wt} apply {patch}')
                if ap.returncode != 0:
                    ap = sh(f'git -C {wt} apply --3way {patch}')
                if ap.returncode != 0:
                    print(name, 'REJECT: patch does not apply:', ap.stderr[:200])
                    continue
                mut = sh(f'PYTHONPATH=. /venv/bin/python {demo}', cwd=wt, timeout=900)
                if clean.returncode != 0 or mut.returncode == 0:
                    print(name, f'REJECT: demo clean rc={clean.returncode} mutated rc={mut.returncode}', (clean.stderr or mut.stderr)[-200:])
                    continue
                tests = 'skipped'
                if not skip_tests:
                    t = sh('/venv/bin/python -m pytest -q -p no:cacheprovider -x -n 6 2>&1 | tail -3', cwd=wt, timeout=3600)
                    tests = t.stdout.strip().splitlines()[-1] if t.stdout.strip() else 'no output'
                    if ' passed' not in tests or 'failed' in tests or 'error' in tests:
                        print(name, 'REJECT: test-suite does not pass with the change:', tests)
                        continue
                dst = os.path.join(VERIF, 'seeded', name)
                os.makedirs(dst, exist_ok=True)
                diff = sh(f'git -C {wt} diff').stdout
                open(os.path.join(dst, 'patch.diff'), 'w').write(diff)
                shutil.copy(demo, os.path.join(dst, 'demo.py'))
                notes = open(f'{src}/m{k}_notes.md').read() if os.path.exists(f'{src}/m{k}_notes.md') else ''
                meta = {'property': pid, 'source': 'independent sub-agent given only the property text and a scratch worktree',
                        'needs_to_manifest': notes.strip()[:1500],
                        'confirmed': {'repo_head': sh('git -C /repo rev-parse --short HEAD').stdout.strip(),
                                      'demo_on_clean_tree_rc': clean.returncode, 'demo_with_change_rc': mut.returncode,
                                      'demo_failure_tail': (mut.stderr or mut.stdout)[-300:], 'test_suite_with_change': tests,
                                      'commands': ['git worktree add --detach <scratch> HEAD', 'PYTHONPATH=. /venv/bin/python demo.py  (clean: 0)',
                                                   'git apply patch.diff', 'PYTHONPATH=. /venv/bin/python demo.py  (changed: non-zero)',
                                                   '/venv/bin/python -m pytest -q -p no:cacheprovider -x -n 6']},
                        'checks': [pid]}
                json.dump(meta, open(os.path.join(dst, 'meta.json'), 'w'), indent=1)
                print(name, 'CONFIRMED', tests)
            finally:
                sh(f'git -C /repo worktree remove --force {wt}')
                shutil.rmtree(wt, ignore_errors=True)


if __name__ == '__main__':
    main()
