#!/venv/bin/python
"""Renders reports/seeded_matrix.json (+ seeded/*/meta.json) as reports/seeded_matrix.md."""
import json, os
V = os.path.dirname(os.path.dirname(os.path.abspath(__file__)))
m = json.load(open(os.path.join(V, 'reports', 'seeded_matrix.json')))
rows = []
for name in sorted(m):
    meta = json.load(open(os.path.join(V, 'seeded', name, 'meta.json')))
    r = m[name]
    if 'results' not in r:
        continue
    det = r['detected_by']
    first = ''
    for c, v in r['results'].items():
        if v['rc'] == 1:
            first = v['first'].split('violation: ')[-1][:110]
            break
    what = meta['needs_to_manifest'].strip().splitlines()
    title = next((l.strip('# ').strip() for l in what if l.strip()), '')[:100]
    rows.append((name, meta['property'], ','.join(det) if det else ('-' + (' (' + meta.get('scope_note', '') + ')' if meta.get('scope_note') else '')), title, first))
out = ['| seeded change | breaks | detected by (quick tier) | what it is | first violation reported |', '|---|---|---|---|---|']
out += ['| %s | %s | %s | %s | %s |' % tuple(str(x).replace('|', '/') for x in r) for r in rows]
n = len(rows)
nd = sum(1 for r in rows if not r[2].startswith('-'))
out.append('')
out.append(f'{nd} of {n} seeded changes are detected by the quick tier of the check of the property they were written against.')
open(os.path.join(V, 'reports', 'seeded_matrix.md'), 'w').write('\n'.join(out) + '\n')
print(f'{nd}/{n} detected')
