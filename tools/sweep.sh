#!/bin/bash
# usage: tools/sweep.sh <first seed> <last seed> [tier] [props...]   -- runs every claimed check per seed, reports non-zero exits
cd "$(dirname "$0")/.."
a=$1; b=$2; tier=${3:-quick}; shift 3
props=${@:-C01 C02 C03 C04 C05 C08 C09 C10 C11 C12 C13 C14 C15 C16 C17 C19 C20}
for s in $(seq $a $b); do
  for p in $props; do
    out=$(VERIF_SEED=$s ./check $p --tier $tier --no-determinism 2>&1); rc=$?
    if [ $rc -ne 0 ]; then echo "SEED $s $p rc=$rc"; echo "$out" | grep -E "violation:|VIOLATION|HARNESS|INCONCL" | head -5; fi
  done
  echo "seed $s done"
done
